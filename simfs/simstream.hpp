// SimFS stream layer (DESIGN.md 3.3): a seekable std::streambuf over an in-memory file whose I/O schedule is
// decided by the simulator: every refill delivers a seeded number of bytes (down to 1), the put area has a
// seeded size, every refill/flush is a scheduling point, and EOF refills are counted (hang detection).
// Storage fault operations work on the stored bytes between a writer and a reader.
#pragma once
#include "sim/sim.hpp"
#include <cstring>
#include <streambuf>
#include <string>
#include <vector>

namespace simfs
{
  typedef std::vector<char> Bytes;

  class SimStreamBuf : public std::streambuf
  {
  public:
    // chunk_max: largest number of bytes one refill may deliver / the put area may hold (0 = 4096)
    SimStreamBuf(Bytes& file, size_t chunk_max, bool vary) :
      _file(file), _chunk(chunk_max == 0 ? 4096 : (chunk_max > 4096 ? 4096 : chunk_max)), _vary(vary)
    {
      setg(_gbuf, _gbuf, _gbuf);
      setp(_pbuf, _pbuf + next_chunk());
    }
    ~SimStreamBuf() override { flush_put(); }

    uint64_t refills = 0, eof_refills = 0, flushes = 0, seeks = 0, seeks_across_chunk = 0, short_reads = 0;
    size_t eof_limit = size_t(-1);   // EOF_EARLY: the reader sees the file end here

  protected:
    size_t next_chunk()
    {
      if(!_vary || _chunk <= 1) return _chunk;
      // legal I/O schedule: a read/write may transfer fewer bytes than the buffer could hold
      size_t k = 1 + size_t(sim::decide(sim::DELAY, uint32_t(_chunk), "chunk"));
      // decision value 0 = full chunk (the benign default), v>0 = v bytes
      size_t n = (k == 1) ? _chunk : k - 1;
      if(n < _chunk) ++short_reads;
      return n;
    }

    size_t visible_size() const { return _file.size() < eof_limit ? _file.size() : eof_limit; }

    int_type underflow() override
    {
      if(gptr() < egptr()) return traits_type::to_int_type(*gptr());
      flush_put();
      if(sim::active()) sim::yield("stream_refill");
      _gpos += size_t(egptr() - eback());
      ++refills;
      const size_t vs = visible_size();
      if(_gpos >= vs)
      {
        ++eof_refills;
        setg(_gbuf, _gbuf, _gbuf);
        return traits_type::eof();
      }
      size_t n = next_chunk();
      if(n > vs - _gpos) n = vs - _gpos;
      memcpy(_gbuf, _file.data() + _gpos, n);
      setg(_gbuf, _gbuf, _gbuf + n);
      return traits_type::to_int_type(*gptr());
    }

    std::streamsize showmanyc() override { return 0; }

    void flush_put()
    {
      size_t n = size_t(pptr() - pbase());
      if(n == 0) return;
      if(_ppos + n > _file.size()) _file.resize(_ppos + n);
      memcpy(_file.data() + _ppos, pbase(), n);
      _ppos += n;
      ++flushes;
      setp(_pbuf, _pbuf + next_chunk());
    }

    int_type overflow(int_type ch) override
    {
      flush_put();
      if(sim::active()) sim::yield("stream_flush");
      if(!traits_type::eq_int_type(ch, traits_type::eof())) { *pptr() = traits_type::to_char_type(ch); pbump(1); }
      return traits_type::not_eof(ch);
    }

    int sync() override { flush_put(); return 0; }

    pos_type seekoff(off_type off, std::ios_base::seekdir dir, std::ios_base::openmode which) override
    {
      flush_put();
      ++seeks;
      const bool in = (which & std::ios_base::in) != 0, out = (which & std::ios_base::out) != 0;
      off_type base = 0;
      const off_type cur_g = off_type(_gpos) + off_type(gptr() - eback());
      if(dir == std::ios_base::beg) base = 0;
      else if(dir == std::ios_base::end) base = off_type(visible_size());
      else base = in ? cur_g : off_type(_ppos);
      off_type np = base + off;
      if(np < 0 || np > off_type(_file.size())) return pos_type(off_type(-1));
      if(in)
      {
        if(np < off_type(_gpos) || np > off_type(_gpos) + off_type(egptr() - eback())) ++seeks_across_chunk;
        // drop the get area: the next read refills at the new position (possibly in the middle of an old chunk)
        _gpos = size_t(np);
        setg(_gbuf, _gbuf, _gbuf);
      }
      if(out) _ppos = size_t(np);
      return pos_type(np);
    }

    pos_type seekpos(pos_type pos, std::ios_base::openmode which) override { return seekoff(off_type(pos), std::ios_base::beg, which); }

  private:
    Bytes& _file;
    size_t _chunk;
    bool _vary;
    size_t _gpos = 0;   // file offset of eback()
    size_t _ppos = 0;   // file offset of pbase()
    char _gbuf[4096];
    char _pbuf[4096];
  };

  // per-stream chunk size drawn from the run configuration: {1, 7, 64, 512, 4096}
  inline size_t draw_chunk(const char* knob)
  {
    static const size_t c[5] = {1, 7, 64, 512, 4096};
    return c[sim::cfg_weighted(knob, {1, 2, 3, 2, 3})];
  }

  // -------------------------------------------------------------------------------------------------
  // storage fault operations on stored bytes (explicit, attached to the file they hit)
  struct FaultLog { std::string ops; bool must_reject = false; std::string why; };

  inline size_t pick(size_t n, const char* tag) { return n <= 1 ? 0 : size_t(sim::decide(sim::PICK, uint32_t(n > 0xffffffffu ? 0xffffffffu : n), tag)); }

  inline bool is_ws(char c) { return c == ' ' || c == '\n' || c == '\t' || c == '\r'; }

  // crash of the writer: only a prefix reached the disk
  inline void truncate_at(Bytes& b, FaultLog& log, int bias)
  {
    if(b.empty()) return;
    size_t at = pick(b.size(), "trunc_at");
    if(bias == 1) { size_t tail = b.size() < 64 ? b.size() : 64; at = b.size() - 1 - pick(tail, "trunc_tail"); }   // inside the last lines
    bool removed_nonws = false;
    for(size_t i = at; i < b.size(); ++i) if(!is_ws(b[i])) { removed_nonws = true; break; }
    b.resize(at);
    log.ops += "TRUNCATE_AT(" + std::to_string(at) + ") ";
    if(removed_nonws) { log.must_reject = true; log.why += "truncated before the end of the root element; "; }
    sim::count_fault("TRUNCATE_AT");
  }

  inline void torn_block(Bytes& b, FaultLog& log)
  {
    if(b.empty()) return;
    size_t nb = (b.size() + 511) / 512, i = pick(nb, "torn_block");
    size_t beg = i * 512, end = beg + 512 > b.size() ? b.size() : beg + 512;
    for(size_t k = beg; k < end; ++k) b[k] = 0;
    log.ops += "TORN_BLOCK(" + std::to_string(i) + ") ";
    sim::count_fault("TORN_BLOCK");
  }

  inline void drop_block(Bytes& b, FaultLog& log)
  {
    if(b.empty()) return;
    size_t nb = (b.size() + 511) / 512, i = pick(nb, "drop_block");
    size_t beg = i * 512, end = beg + 512 > b.size() ? b.size() : beg + 512;
    b.erase(b.begin() + long(beg), b.begin() + long(end));
    log.ops += "DROP_BLOCK(" + std::to_string(i) + ") ";
    sim::count_fault("DROP_BLOCK");
  }

  inline void dup_block(Bytes& b, FaultLog& log)
  {
    if(b.empty()) return;
    size_t nb = (b.size() + 511) / 512, i = pick(nb, "dup_block");
    size_t beg = i * 512, end = beg + 512 > b.size() ? b.size() : beg + 512;
    Bytes blk(b.begin() + long(beg), b.begin() + long(end));
    b.insert(b.begin() + long(end), blk.begin(), blk.end());
    log.ops += "DUP_BLOCK(" + std::to_string(i) + ") ";
    sim::count_fault("DUP_BLOCK");
  }

  inline void bitflip(Bytes& b, FaultLog& log, int bias)
  {
    if(b.empty()) return;
    size_t at = pick(b.size(), "flip_at");
    if(bias == 1)
    {
      // structural characters: < > / " and digits
      std::vector<size_t> cand;
      for(size_t i = 0; i < b.size() && cand.size() < 100000; ++i) { char c = b[i]; if(c == '<' || c == '>' || c == '/' || c == '"' || c == '=') cand.push_back(i); }
      if(!cand.empty()) at = cand[pick(cand.size(), "flip_struct")];
    }
    int bit = int(pick(8, "flip_bit"));
    b[at] = char(b[at] ^ char(1 << bit));
    log.ops += "BITFLIP(" + std::to_string(at) + "," + std::to_string(bit) + ") ";
    sim::count_fault("BITFLIP");
  }
}
