// Deterministic simulator core. See sim.hpp / DESIGN.md 2.
#include "sim.hpp"
#include "real.hpp"

#include <dlfcn.h>
#include <semaphore.h>
#include <signal.h>
#include <unistd.h>
#include <cstdio>
#include <cstdlib>
#include <cstring>
#include <algorithm>
#include <exception>
#include <memory>
#include <queue>
#include <sstream>

namespace sim
{
  // ------------------------------------------------------------------------------------------------
  // real function table
  namespace real
  {
    static Table g_tab;
    static bool g_tab_init = false;
    const Table& tab()
    {
      if(!g_tab_init)
      {
        Table t;
        t.create = (pthread_create_t)dlsym(RTLD_NEXT, "pthread_create");
        t.join = (pthread_join_t)dlsym(RTLD_NEXT, "pthread_join");
        t.detach = (pthread_detach_t)dlsym(RTLD_NEXT, "pthread_detach");
        t.mutex_lock = (mutex_fn_t)dlsym(RTLD_NEXT, "pthread_mutex_lock");
        t.mutex_trylock = (mutex_fn_t)dlsym(RTLD_NEXT, "pthread_mutex_trylock");
        t.mutex_unlock = (mutex_fn_t)dlsym(RTLD_NEXT, "pthread_mutex_unlock");
        t.cond_wait = (cond_wait_t)dlsym(RTLD_NEXT, "pthread_cond_wait");
        t.cond_timedwait = (cond_timedwait_t)dlsym(RTLD_NEXT, "pthread_cond_timedwait");
        t.cond_clockwait = (cond_clockwait_t)dlsym(RTLD_NEXT, "pthread_cond_clockwait");
        t.cond_signal = (cond_fn_t)dlsym(RTLD_NEXT, "pthread_cond_signal");
        t.cond_broadcast = (cond_fn_t)dlsym(RTLD_NEXT, "pthread_cond_broadcast");
        t.gettimeofday = (gettimeofday_t)dlsym(RTLD_NEXT, "gettimeofday");
        t.time = (time_fn_t)dlsym(RTLD_NEXT, "time");
        t.clock_gettime = (clock_gettime_t)dlsym(RTLD_NEXT, "clock_gettime");
        t.sched_yield = (sched_yield_t)dlsym(RTLD_NEXT, "sched_yield");
        t.nanosleep = (nanosleep_t)dlsym(RTLD_NEXT, "nanosleep");
        t.usleep = (usleep_t)dlsym(RTLD_NEXT, "usleep");
        g_tab = t;
        g_tab_init = true;
      }
      return g_tab;
    }
  }

  // ------------------------------------------------------------------------------------------------
  // PRNG: splitmix64 seeding + xoshiro256**
  static inline uint64_t splitmix(uint64_t& x)
  {
    uint64_t z = (x += 0x9e3779b97f4a7c15ull);
    z = (z ^ (z >> 30)) * 0xbf58476d1ce4e5b9ull;
    z = (z ^ (z >> 27)) * 0x94d049bb133111ebull;
    return z ^ (z >> 31);
  }
  void Rng::seed(uint64_t a, uint64_t b)
  {
    uint64_t x = a * 0x2545F4914F6CDD1Dull + b * 0x9E3779B97F4A7C15ull + 0x1234567ull;
    for(int i = 0; i < 4; ++i) s[i] = splitmix(x);
  }
  static inline uint64_t rotl(uint64_t x, int k) { return (x << k) | (x >> (64 - k)); }
  uint64_t Rng::next()
  {
    const uint64_t r = rotl(s[1] * 5, 7) * 9;
    const uint64_t t = s[1] << 17;
    s[2] ^= s[0]; s[3] ^= s[1]; s[1] ^= s[2]; s[0] ^= s[3];
    s[2] ^= t; s[3] = rotl(s[3], 45);
    return r;
  }

  uint64_t fnv(const void* p, size_t n, uint64_t h)
  {
    const unsigned char* c = (const unsigned char*)p;
    for(size_t i = 0; i < n; ++i) { h ^= c[i]; h *= 1099511628211ull; }
    return h;
  }
  static inline uint64_t mix(uint64_t h, uint64_t v) { return fnv(&v, sizeof(v), h); }

  // ------------------------------------------------------------------------------------------------
  struct Task
  {
    int id = -1;
    std::string name;
    sem_t sem;
    enum State { NEW, RUNNABLE, BLOCKED, FINISHED } state = NEW;
    const std::function<bool()>* ready = nullptr;
    const char* blocked_on = "";
    VClock vc;
    pthread_t real_thread = 0;
    bool via_seam = false;       // created through interposed pthread_create
    bool joined_by_core = false;
    bool seam_joined = false;
    std::function<void()> body;
    void* (*start)(void*) = nullptr;
    void* start_arg = nullptr;
    void* retval = nullptr;
    uint64_t prio = 0;
    int parent = -1;             // creating task (thread seam only)
  };

  struct Event
  {
    uint64_t t, seq;
    std::function<void()> fn;
  };
  struct EventCmp { bool operator()(const Event& a, const Event& b) const { return a.t != b.t ? a.t > b.t : a.seq > b.seq; } };

  struct FaultKind { int permille = 0; };

  struct EvRec { const char* tag; int task; uint64_t step, a, b, c; };

  struct World
  {
    Options opt;
    Rng rng;
    bool running = false;
    std::vector<std::unique_ptr<Task>> tasks;
    int current = -1;
    sem_t controller_sem;
    std::priority_queue<Event, std::vector<Event>, EventCmp> events;
    uint64_t ev_seq = 0;
    uint64_t now = 0;
    Stats st;
    std::vector<uint32_t> dec_val;
    std::string dec_kind;
    size_t replay_pos = 0;
    std::map<std::string, FaultKind> fkinds;
    // strategy state
    int strategy = 0, preempt_pm = 0, pct_d = 0, starve_task = -1;
    uint64_t pct_len = 1000, starve_beg = 0, starve_end = 0;
    std::vector<uint64_t> pct_points;
    bool hot = false;
    bool clean = false;
    EvRec ring[64];
    uint64_t ring_n = 0;
    std::vector<std::string> notes;
  };

  static World* W = nullptr;
}
// hooks of the "race" flavour (sim/race_rt.cpp); absent in the other flavours
extern "C"
{
  void sim_race_rt_begin() __attribute__((weak));
  void sim_race_rt_end(unsigned long long* counters) __attribute__((weak));
  void sim_race_rt_pause(int on) __attribute__((weak));
}
namespace sim
{
  NoRace::NoRace() { if(sim_race_rt_pause) sim_race_rt_pause(1); }
  NoRace::~NoRace() { if(sim_race_rt_pause) sim_race_rt_pause(0); }
  static thread_local Task* t_task = nullptr;
  static thread_local bool t_in_model = false;

  ModelGuard::ModelGuard() { prev = t_in_model; t_in_model = true; }
  ModelGuard::~ModelGuard() { t_in_model = prev; }
  bool in_model() { return t_in_model; }
  void* task_tls() { return t_task; }

  bool active() { return W != nullptr && W->running && t_task != nullptr && !t_in_model; }
  int self() { return t_task ? t_task->id : -1; }
  int parent_of(int task) { return (W && task >= 0 && task < int(W->tasks.size())) ? W->tasks[size_t(task)]->parent : -1; }
  int num_tasks() { return W ? int(W->tasks.size()) : 0; }
  const Options& options() { return W->opt; }
  static uint64_t g_run_serial = 0;
  uint64_t run_serial() { return g_run_serial; }
  uint64_t now_ns() { return W->now; }
  void advance(uint64_t ns) { W->now += ns; }

  std::string jstr(const std::string& s)
  {
    std::string o = "\"";
    for(char ch : s)
    {
      unsigned char c = (unsigned char)ch;
      if(c == '"') o += "\\\"";
      else if(c == '\\') o += "\\\\";
      else if(c == '\n') o += "\\n";
      else if(c == '\t') o += "\\t";
      else if(c < 0x20 || c >= 0x7f) { char b[8]; snprintf(b, sizeof(b), "\\u%04x", c); o += b; }
      else o += char(c);
    }
    return o + "\"";
  }

  static std::string map_json(const std::map<std::string, uint64_t>& m)
  {
    std::string o = "{"; bool first = true;
    for(auto& kv : m) { if(!first) o += ","; first = false; o += jstr(kv.first) + ":" + std::to_string(kv.second); }
    return o + "}";
  }
  static std::string cfg_json(const std::map<std::string, long long>& m)
  {
    std::string o = "{"; bool first = true;
    for(auto& kv : m) { if(!first) o += ","; first = false; o += jstr(kv.first) + ":" + std::to_string(kv.second); }
    return o + "}";
  }

  std::string stats_json(const Stats& s)
  {
    std::ostringstream o;
    o << "{\"cls\":" << jstr(s.cls) << ",\"msg\":" << jstr(s.msg)
      << ",\"steps\":" << s.steps << ",\"sim_ns\":" << s.sim_ns << ",\"events\":" << s.events
      << ",\"hash\":\"" << std::hex << s.hash << "\",\"sched_hash\":\"" << s.sched_hash << std::dec << "\""
      << ",\"decisions\":" << s.decisions << ",\"nonzero\":" << s.nonzero_decisions << ",\"tasks\":" << s.tasks
      << ",\"faults\":" << map_json(s.faults) << ",\"probes\":" << map_json(s.probes)
      << ",\"cfg\":" << cfg_json(s.cfg) << "}";
    return o.str();
  }

  static void finalize_stats()
  {
    W->st.sim_ns = W->now;
    W->st.decisions = W->dec_val.size();
    uint64_t nz = 0;
    for(auto v : W->dec_val) if(v) ++nz;
    W->st.nonzero_decisions = nz;
    W->st.tasks = int(W->tasks.size());
  }

  static void write_trace(const std::string& path)
  {
    if(path.empty()) return;
    FILE* f = fopen(path.c_str(), "w");
    if(!f) return;
    fprintf(f, "{\n \"property\":%s,\n \"harness\":%s,\n \"seed\":%llu,\n \"run\":%llu,\n", jstr(W->opt.property).c_str(),
      jstr(W->opt.harness).c_str(), (unsigned long long)W->opt.seed, (unsigned long long)W->opt.run);
    fprintf(f, " \"class\":%s,\n \"msg\":%s,\n \"hash\":\"%llx\",\n \"steps\":%llu,\n", jstr(W->st.cls).c_str(), jstr(W->st.msg).c_str(),
      (unsigned long long)W->st.hash, (unsigned long long)W->st.steps);
    fprintf(f, " \"cfg\":%s,\n", cfg_json(W->st.cfg).c_str());
    // trailing zeros are implied
    size_t n = W->dec_val.size();
    while(n > 0 && W->dec_val[n - 1] == 0) --n;
    fprintf(f, " \"kinds\":\"%s\",\n \"decisions\":[", W->dec_kind.substr(0, n).c_str());
    for(size_t i = 0; i < n; ++i) fprintf(f, "%s%u", i ? "," : "", W->dec_val[i]);
    fprintf(f, "],\n \"last_events\":[");
    uint64_t beg = W->ring_n > 64 ? W->ring_n - 64 : 0;
    for(uint64_t i = beg; i < W->ring_n; ++i)
    {
      const EvRec& e = W->ring[i % 64];
      fprintf(f, "%s\n  [%llu,%d,%s,%llu,%llu,%llu]", i > beg ? "," : "", (unsigned long long)e.step, e.task, jstr(e.tag).c_str(),
        (unsigned long long)e.a, (unsigned long long)e.b, (unsigned long long)e.c);
    }
    fprintf(f, "],\n \"notes\":[");
    for(size_t i = 0; i < W->notes.size(); ++i) fprintf(f, "%s\n  %s", i ? "," : "", jstr(W->notes[i]).c_str());
    fprintf(f, "]\n}\n");
    fclose(f);
  }

  std::string describe_tasks()
  {
    std::string s;
    for(auto& t : W->tasks)
    {
      const char* stn = t->state == Task::FINISHED ? "finished" : t->state == Task::BLOCKED ? "blocked" : t->state == Task::RUNNABLE ? "runnable" : "new";
      s += "[" + std::to_string(t->id) + ":" + t->name + " " + stn;
      if(t->state == Task::BLOCKED) s += std::string(" on ") + t->blocked_on;
      s += "] ";
    }
    return s;
  }

  void note(const std::string& s)
  {
    if(!W) return;
    ModelGuard g;
    if(W->notes.size() < 200) W->notes.push_back(s);
  }

  [[noreturn]] void fail(const char* cls, const std::string& msg)
  {
    t_in_model = true;
    if(W)
    {
      W->st.cls = cls;
      W->st.msg = msg;
      finalize_stats();
      write_trace(W->opt.trace_out);
      std::string line = "{\"run\":" + std::to_string(W->opt.run) + ",\"seed\":" + std::to_string(W->opt.seed) + ",\"result\":" + stats_json(W->st) + "}\n";
      fflush(stdout);
      ssize_t r = write(1, line.data(), line.size());
      (void)r;
    }
    _exit(3);
  }

  // ------------------------------------------------------------------------------------------------
  // decisions
  static uint32_t next_raw(Kind k, uint32_t seed_mode_value)
  {
    uint32_t v;
    if(W->opt.replay)
      v = W->replay_pos < W->opt.decisions_in.size() ? W->opt.decisions_in[W->replay_pos] : 0u;
    else
      v = seed_mode_value;
    ++W->replay_pos;
    W->dec_val.push_back(v);
    W->dec_kind.push_back("SFDP"[int(k)]);
    return v;
  }

  uint32_t decide(Kind k, uint32_t n, const char* tag)
  {
    if(n <= 1 || !W) return 0;
    ModelGuard g;
    uint32_t sv = 0;
    if(!W->opt.replay) sv = uint32_t(W->rng.uniform(n));
    uint32_t v = next_raw(k, sv) % n;
    W->st.hash = mix(mix(W->st.hash, 0xD0 + uint64_t(k)), v);
    (void)tag;
    return v;
  }

  void fault_setup(const char* name, const std::vector<int>& permille_choices)
  {
    // cfg "f.<name>": rate in permille (0 = kind off in this run); clean runs have every kind off
    std::string key = std::string("f.") + name;
    long long pm;
    if(W->opt.replay)
    {
      auto it = W->opt.cfg_in.find(key);
      pm = it == W->opt.cfg_in.end() ? 0 : it->second;
    }
    else
    {
      // draw always (fixed draw order), apply only if not clean
      uint64_t on = W->rng.uniform(2);
      uint64_t idx = W->rng.uniform(permille_choices.size());
      pm = (on && !W->clean) ? permille_choices[idx] : 0;
    }
    W->st.cfg[key] = pm;
    W->fkinds[name].permille = int(pm);
  }

  bool fault_enabled(const char* name)
  {
    auto it = W->fkinds.find(name);
    return it != W->fkinds.end() && it->second.permille > 0;
  }

  bool fault(const char* name)
  {
    if(!W) return false;
    ModelGuard g;
    auto it = W->fkinds.find(name);
    if(it == W->fkinds.end() || it->second.permille <= 0) return false;
    uint32_t sv = 0;
    if(!W->opt.replay) sv = W->rng.uniform(1000) < uint64_t(it->second.permille) ? 1u : 0u;
    uint32_t v = next_raw(FAULT, sv);
    W->st.hash = mix(mix(W->st.hash, 0xFA), v);
    if(v != 0) { ++W->st.faults[name]; return true; }
    return false;
  }

  void count_fault(const char* name, uint64_t n) { ModelGuard g; W->st.faults[name] += n; }
  void probe(const char* name, uint64_t n) { if(!W) return; ModelGuard g; W->st.probes[name] += n; }

  long long cfg_int(const char* name, long long lo, long long hi)
  {
    long long v;
    if(W->st.cfg.count(name)) fail("INFRA", std::string("configuration knob drawn twice in one run: ") + name);
    if(W->opt.replay)
    {
      auto it = W->opt.cfg_in.find(name);
      v = it == W->opt.cfg_in.end() ? lo : it->second;
      if(v < lo) v = lo;
      if(v > hi) v = hi;
    }
    else
      v = lo + (long long)W->rng.uniform(uint64_t(hi - lo + 1));
    W->st.cfg[name] = v;
    return v;
  }

  // a knob that exploration never varies (no PRNG draw): it has its default unless a replay file says otherwise - used to
  // pin the reproduction of a known finding to a trace file without ever meeting it in the seed sweep
  long long cfg_fixed(const char* name, long long dflt)
  {
    if(W->st.cfg.count(name)) fail("INFRA", std::string("configuration knob drawn twice in one run: ") + name);
    long long v = dflt;
    if(W->opt.replay)
    {
      auto it = W->opt.cfg_in.find(name);
      if(it != W->opt.cfg_in.end()) v = it->second;
    }
    W->st.cfg[name] = v;
    return v;
  }

  bool thorough()
  {
    auto it = W->st.cfg.find("thorough");
    if(it != W->st.cfg.end()) return it->second != 0;
    long long v;
    if(W->opt.replay) { auto jt = W->opt.cfg_in.find("thorough"); v = (jt != W->opt.cfg_in.end() && jt->second != 0) ? 1 : 0; }
    else { const char* t = getenv("VERIF_TIER"); v = (t != nullptr && strcmp(t, "thorough") == 0) ? 1 : 0; }
    W->st.cfg["thorough"] = v;
    return v != 0;
  }

  long long cfg_weighted(const char* name, const std::vector<int>& weights)
  {
    long long v;
    if(W->st.cfg.count(name)) fail("INFRA", std::string("configuration knob drawn twice in one run: ") + name);
    if(W->opt.replay)
    {
      auto it = W->opt.cfg_in.find(name);
      v = it == W->opt.cfg_in.end() ? 0 : it->second;
      if(v < 0) v = 0;
      if(v >= (long long)weights.size()) v = (long long)weights.size() - 1;
      // fall back to the first option with non-zero weight if the requested one is disabled
      if(weights[size_t(v)] == 0) { for(size_t i = 0; i < weights.size(); ++i) if(weights[i] > 0) { v = (long long)i; break; } }
    }
    else
    {
      uint64_t tot = 0;
      for(int w : weights) tot += uint64_t(w);
      uint64_t r = W->rng.uniform(tot);
      v = 0;
      for(size_t i = 0; i < weights.size(); ++i) { if(r < uint64_t(weights[i])) { v = (long long)i; break; } r -= uint64_t(weights[i]); }
    }
    W->st.cfg[name] = v;
    return v;
  }

  void ev(const char* tag, uint64_t a, uint64_t b, uint64_t c)
  {
    if(!W) return;
    uint64_t h = W->st.hash;
    h = mix(h, W->st.steps);
    h = mix(h, uint64_t(self() + 1));
    h = fnv(tag, strlen(tag), h);
    h = mix(mix(mix(h, a), b), c);
    W->st.hash = h;
    ++W->st.events;
    EvRec& r = W->ring[W->ring_n % 64];
    r.tag = tag; r.task = self(); r.step = W->st.steps; r.a = a; r.b = b; r.c = c;
    ++W->ring_n;
  }

  void at(uint64_t t_ns, std::function<void()> fn)
  {
    ModelGuard g;
    Event e; e.t = t_ns; e.seq = ++W->ev_seq; e.fn = std::move(fn);
    W->events.push(std::move(e));
  }

  VClock& vclock() { return t_task->vc; }
  void vc_tick() { ++t_task->vc[size_t(t_task->id)]; }
  void vc_join(const VClock& o)
  {
    VClock& v = t_task->vc;
    for(size_t i = 0; i < v.size() && i < o.size(); ++i) if(o[i] > v[i]) v[i] = o[i];
  }
  bool task_finished(int id) { return W->tasks[size_t(id)]->state == Task::FINISHED; }
  const VClock& final_vclock(int id) { return W->tasks[size_t(id)]->vc; }
  int task_of_pthread(unsigned long h)
  {
    // pthread_t values are reused by glibc after a join: newest first, joined ones never match again
    for(size_t i = W->tasks.size(); i-- > 0;)
    {
      Task* t = W->tasks[i].get();
      if(t->via_seam && !t->seam_joined && (unsigned long)t->real_thread == h) return t->id;
    }
    return -1;
  }
  void mark_joined(int id) { W->tasks[size_t(id)]->seam_joined = true; }
  void set_blocked_desc(const char* d) { if(t_task) t_task->blocked_on = d; }

  // ------------------------------------------------------------------------------------------------
  // scheduler
  static void process_due_events()
  {
    while(!W->events.empty() && W->events.top().t <= W->now)
    {
      std::function<void()> fn = W->events.top().fn;
      W->events.pop();
      fn();
    }
  }

  static bool is_enabled(Task* t)
  {
    if(t->state == Task::RUNNABLE) return true;
    if(t->state == Task::BLOCKED) return (*t->ready)();
    return false;
  }

  // choose the next task; cur = calling task or nullptr (controller / finished task)
  static Task* choose(Task* cur)
  {
    for(;;)
    {
      process_due_events();
      Task* en[MAX_TASKS]; int n = 0;
      bool unfinished = false;
      for(auto& t : W->tasks)
      {
        if(t->state != Task::FINISHED) unfinished = true;
        if(is_enabled(t.get())) en[n++] = t.get();
      }
      if(n == 0)
      {
        if(!W->events.empty()) { W->now = std::max(W->now, W->events.top().t); continue; }
        if(!unfinished) return nullptr;
        fail("DEADLOCK", "no task enabled and no event pending: " + describe_tasks());
      }
      ++W->st.steps;
      W->now += 1000;
      if(W->st.steps > W->opt.max_steps)
        fail("BUDGET", "step budget " + std::to_string(W->opt.max_steps) + " exceeded: " + describe_tasks());
      if(n == 1) { W->hot = false; return en[0]; }

      // default = current task if enabled, else lowest id
      int defidx = 0;
      bool cur_enabled = false;
      for(int i = 0; i < n; ++i) if(en[i] == cur) { defidx = i; cur_enabled = true; }

      uint32_t sv = 0;
      if(!W->opt.replay)
      {
        int target = defidx;
        Rng& r = W->rng;
        switch(W->strategy)
        {
        default:
        case 0: // run-to-block with preemption probability
        case 3: // + starvation window
          {
            double p = double(W->preempt_pm) / 1000.0;
            if(W->hot) p = std::max(p, 0.5);
            if(!cur_enabled || r.bernoulli(p)) target = int(r.uniform(uint64_t(n)));
            if(W->strategy == 3 && W->st.steps >= W->starve_beg && W->st.steps < W->starve_end && en[target]->id == W->starve_task)
            {
              // pick another one
              int alt = int(r.uniform(uint64_t(n - 1)));
              if(alt >= target) ++alt;
              target = alt;
            }
          }
          break;
        case 1: // uniform
          target = int(r.uniform(uint64_t(n)));
          break;
        case 2: // PCT: highest priority runs; at change points the running task drops to lowest priority
          {
            for(uint64_t pt : W->pct_points)
              if(pt == W->st.steps && cur) cur->prio = r.uniform(1000); // below every initial priority (>= 1000)
            target = 0;
            for(int i = 1; i < n; ++i) if(en[i]->prio > en[target]->prio) target = i;
          }
          break;
        }
        sv = (target == defidx) ? 0u : uint32_t(target + 1);
      }
      W->hot = false;
      uint32_t v = next_raw(SCHED, sv);
      Task* nx = (v == 0) ? en[defidx] : en[(v - 1) % uint32_t(n)];
      if(cur_enabled && nx != cur) ++W->st.faults["PREEMPT"];
      W->st.sched_hash = mix(W->st.sched_hash, uint64_t(nx->id) + 1);
      return nx;
    }
  }

  // called by the running task at a scheduling point (its own state has been set already)
  static void reschedule()
  {
    Task* me = t_task;
    Task* nx = choose(me);
    if(nx == me)
    {
      me->state = Task::RUNNABLE;
      return;
    }
    W->current = nx->id;
    sem_post(&nx->sem);
    while(sem_wait(&me->sem) != 0) {}
    me->state = Task::RUNNABLE;
  }

  void hot() { if(W) W->hot = true; }

  void yield(const char* tag)
  {
    if(!active()) return;
    ModelGuard g;
    (void)tag;
    t_task->state = Task::RUNNABLE;
    reschedule();
  }

  void block_until(const std::function<bool()>& ready, const char* what)
  {
    ModelGuard g;
    t_task->ready = &ready;
    t_task->blocked_on = what;
    t_task->state = Task::BLOCKED;
    reschedule();
    t_task->ready = nullptr;
  }

  void sleep_ns(uint64_t ns)
  {
    ModelGuard g;
    const uint64_t t = W->now + ns;
    at(t, []() {});
    std::function<bool()> ready = [t]() { return W->now >= t; };
    block_until(ready, "sleep");
  }

  static void task_finish()
  {
    Task* me = t_task;
    t_in_model = true;
    ++me->vc[size_t(me->id)];
    me->state = Task::FINISHED;
    Task* nx = choose(nullptr);
    t_task = nullptr;
    t_in_model = false;
    if(nx == nullptr) sem_post(&W->controller_sem);
    else { W->current = nx->id; sem_post(&nx->sem); }
  }

  static void* trampoline(void* p)
  {
    Task* t = (Task*)p;
    while(sem_wait(&t->sem) != 0) {}
    t_task = t;
    t->state = Task::RUNNABLE;
    void* rv = nullptr;
    if(t->start) rv = t->start(t->start_arg);
    else t->body();
    task_finish();
    return rv;
  }

  static Task* new_task(const std::string& name)
  {
    if(int(W->tasks.size()) >= MAX_TASKS) fail("INFRA", "too many tasks");
    std::unique_ptr<Task> t(new Task);
    t->id = int(W->tasks.size());
    t->name = name;
    sem_init(&t->sem, 0, 0);
    t->vc.assign(MAX_TASKS, 0);
    t->prio = 1000 + (W->opt.replay ? 0 : W->rng.uniform(1000000));
    Task* raw = t.get();
    W->tasks.push_back(std::move(t));
    return raw;
  }

  int spawn(const std::string& name, std::function<void()> body)
  {
    ModelGuard g;
    Task* t = new_task(name);
    t->body = std::move(body);
    if(t_task)
    {
      // the child starts with what its creator knew at the creation; the creator moves on to a new epoch, so that
      // what it does afterwards is not ordered before the child
      t->vc = t_task->vc;
      t->vc[size_t(t->id)] = 1;
      ++t_task->vc[size_t(t_task->id)];
    }
    else t->vc[size_t(t->id)] = 1;
    pthread_attr_t attr;
    pthread_attr_init(&attr);
    pthread_attr_setstacksize(&attr, size_t(64) << 20);
    t->state = Task::RUNNABLE; // enabled as soon as created; parks on its semaphore until chosen
    int rc = real::tab().create(&t->real_thread, &attr, trampoline, t);
    pthread_attr_destroy(&attr);
    if(rc != 0) fail("INFRA", "pthread_create failed");
    t->joined_by_core = true;
    return t->id;
  }

  int spawn_pthread(void* (*start)(void*), void* arg, unsigned long* real_handle_out)
  {
    ModelGuard g;
    Task* t = new_task("thread");
    t->start = start;
    t->start_arg = arg;
    t->via_seam = true;
    t->parent = t_task->id;
    t->vc = t_task->vc;
    t->vc[size_t(t->id)] = 1;
    ++t_task->vc[size_t(t_task->id)];
    t->state = Task::RUNNABLE;
    int rc = real::tab().create(&t->real_thread, nullptr, trampoline, t);
    if(rc != 0) fail("INFRA", "pthread_create failed");
    *real_handle_out = (unsigned long)t->real_thread;
    return t->id;
  }

  // ------------------------------------------------------------------------------------------------
  static void on_sigabrt(int)
  {
    fail("ABORT", "abort() reached (assertion failure, std::terminate or sanitizer report: see stderr)");
  }
  static void on_sigsegv(int)
  {
    fail("SIGSEGV", "fatal signal (SIGSEGV/SIGBUS/SIGFPE/SIGILL): wild memory access or arithmetic trap");
  }
  static void on_sigalrm(int)
  {
    t_in_model = true;
    const char m[] = "{\"infra\":\"watchdog: real-time limit for one simulated run exceeded\"}\n";
    ssize_t r = write(1, m, sizeof(m) - 1); (void)r;
    _exit(4);
  }
  static void on_terminate()
  {
    std::string what = "std::terminate";
    if(std::exception_ptr ep = std::current_exception())
    {
      try { std::rethrow_exception(ep); }
      catch(const std::exception& e) { what += std::string(": uncaught ") + e.what(); }
      catch(...) { what += ": uncaught non-std exception"; }
    }
    fail("TERMINATE", what);
  }

  void run_begin(const Options& o)
  {
    static bool handlers = false;
    if(!handlers)
    {
      handlers = true;
      signal(SIGABRT, on_sigabrt);
      signal(SIGALRM, on_sigalrm);
#if defined(SIM_FLAVOUR_GUARD) || defined(SIM_FLAVOUR_RACE)
      // no sanitizer runtime in this flavour: a wild access must still end the run as a violation with its trace
      // (in the sanitizer flavour ASan owns SIGSEGV and reports through abort())
      {
        static char altstack[1 << 16];
        stack_t ss; ss.ss_sp = altstack; ss.ss_size = sizeof(altstack); ss.ss_flags = 0;
        sigaltstack(&ss, nullptr);
        struct sigaction sa; memset(&sa, 0, sizeof(sa));
        sa.sa_handler = on_sigsegv; sa.sa_flags = SA_ONSTACK | SA_NODEFER;
        sigaction(SIGSEGV, &sa, nullptr); sigaction(SIGBUS, &sa, nullptr); sigaction(SIGFPE, &sa, nullptr); sigaction(SIGILL, &sa, nullptr);
      }
#endif
      std::set_terminate(on_terminate);
      (void)on_sigsegv;
    }
    delete W;
    W = new World;
    ++g_run_serial;
    W->opt = o;
    W->rng.seed(o.seed, o.run);
    sem_init(&W->controller_sem, 0, 0);
    W->st.hash = 1469598103934665603ull;
    W->st.sched_hash = 1469598103934665603ull;
    { const char* wd = getenv("SIM_WATCHDOG_S"); alarm(wd ? unsigned(atoi(wd)) : 900u); }
    // per-run search strategy (swarm)
    W->clean = cfg_int("clean", 0, 2) == 0; // a third of the runs: every fault kind off
    W->strategy = int(cfg_weighted("strategy", {4, 2, 2, 2}));
    static const int pms[5] = {0, 10, 50, 200, 500};
    W->preempt_pm = pms[cfg_int("preempt_idx", 0, 4)];
    W->pct_d = int(cfg_int("pct_d", 1, 3));
    static const long long lens[4] = {100, 1000, 10000, 100000};
    W->pct_len = uint64_t(lens[cfg_int("pct_len_idx", 0, 3)]);
    W->starve_task = int(cfg_int("starve_task", 0, 15));
    W->starve_beg = uint64_t(cfg_int("starve_beg", 0, 2000));
    W->starve_end = W->starve_beg + uint64_t(cfg_int("starve_len", 10, 5000));
    if(!o.replay)
      for(int i = 0; i < W->pct_d; ++i) W->pct_points.push_back(1 + W->rng.uniform(W->pct_len));
    if(W->strategy == 3 && W->preempt_pm == 0) W->preempt_pm = 50;
    if(sim_race_rt_begin) sim_race_rt_begin();
  }

  void run_go()
  {
    {
      ModelGuard g;
      W->running = true;
      Task* nx = choose(nullptr);
      if(nx == nullptr) { W->running = false; return; }
      W->current = nx->id;
      sem_post(&nx->sem);
    }
    while(sem_wait(&W->controller_sem) != 0) {}
    W->running = false;
    for(auto& t : W->tasks)
      if(t->joined_by_core) { real::tab().join(t->real_thread, nullptr); t->joined_by_core = false; }
  }

  Stats run_end()
  {
    alarm(0);
    if(sim_race_rt_end)
    {
      unsigned long long c[4] = {0, 0, 0, 0};
      sim_race_rt_end(c);
      if(c[0]) probe("race_detector_accesses_checked", c[0]);
      if(c[1]) probe("race_detector_locations_tracked", c[1]);
      if(c[2]) probe("race_detector_atomic_and_guard_syncs", c[2]);
      if(c[3]) probe("race_detector_locations_untracked", c[3]);
    }
    finalize_stats();
    if(W->opt.keep_trace) write_trace(W->opt.trace_out);
    Stats s = W->st;
    for(auto& t : W->tasks) sem_destroy(&t->sem);
    return s;
  }

  // ------------------------------------------------------------------------------------------------
  // tiny JSON reader for replay files (objects, arrays, strings, integers)
  namespace
  {
    struct JP
    {
      const std::string& s; size_t i = 0; std::string err;
      explicit JP(const std::string& str) : s(str) {}
      void ws() { while(i < s.size() && (s[i] == ' ' || s[i] == '\n' || s[i] == '\t' || s[i] == '\r')) ++i; }
      bool lit(char c) { ws(); if(i < s.size() && s[i] == c) { ++i; return true; } return false; }
      bool str(std::string& out)
      {
        ws(); if(i >= s.size() || s[i] != '"') return false; ++i; out.clear();
        while(i < s.size() && s[i] != '"')
        {
          if(s[i] == '\\' && i + 1 < s.size())
          {
            char c = s[i + 1];
            if(c == 'n') out += '\n'; else if(c == 't') out += '\t';
            else if(c == 'u' && i + 5 < s.size()) { out += char(strtol(s.substr(i + 2, 4).c_str(), nullptr, 16)); i += 4; }
            else out += c;
            i += 2;
          }
          else out += s[i++];
        }
        if(i >= s.size()) return false; ++i; return true;
      }
      bool num(long long& v)
      {
        ws(); size_t b = i; if(i < s.size() && (s[i] == '-' || s[i] == '+')) ++i;
        while(i < s.size() && isdigit((unsigned char)s[i])) ++i;
        if(b == i) return false; v = atoll(s.substr(b, i - b).c_str());
        // skip fractional part if any
        if(i < s.size() && s[i] == '.') { ++i; while(i < s.size() && isdigit((unsigned char)s[i])) ++i; }
        return true;
      }
      bool skip()
      {
        ws(); if(i >= s.size()) return false;
        if(s[i] == '"') { std::string t; return str(t); }
        if(s[i] == '{') { ++i; if(lit('}')) return true; do { std::string k; if(!str(k) || !lit(':') || !skip()) return false; } while(lit(',')); return lit('}'); }
        if(s[i] == '[') { ++i; if(lit(']')) return true; do { if(!skip()) return false; } while(lit(',')); return lit(']'); }
        if(!strncmp(&s[i], "true", 4)) { i += 4; return true; }
        if(!strncmp(&s[i], "false", 5)) { i += 5; return true; }
        if(!strncmp(&s[i], "null", 4)) { i += 4; return true; }
        long long v; return num(v);
      }
    };
  }

  bool load_replay(const std::string& path, Options& o, std::string* err)
  {
    FILE* f = fopen(path.c_str(), "r");
    if(!f) { if(err) *err = "cannot open " + path; return false; }
    std::string s; char buf[65536]; size_t n;
    while((n = fread(buf, 1, sizeof(buf), f)) > 0) s.append(buf, n);
    fclose(f);
    JP p(s);
    if(!p.lit('{')) { if(err) *err = "not an object"; return false; }
    o.replay = true;
    if(!p.lit('}'))
    {
      do
      {
        std::string k;
        if(!p.str(k) || !p.lit(':')) { if(err) *err = "bad key"; return false; }
        if(k == "seed") { long long v; if(!p.num(v)) return false; o.seed = uint64_t(v); }
        else if(k == "run") { long long v; if(!p.num(v)) return false; o.run = uint64_t(v); }
        else if(k == "cfg")
        {
          if(!p.lit('{')) return false;
          if(!p.lit('}'))
          {
            do { std::string ck; long long v; if(!p.str(ck) || !p.lit(':') || !p.num(v)) return false; o.cfg_in[ck] = v; } while(p.lit(','));
            if(!p.lit('}')) return false;
          }
        }
        else if(k == "decisions")
        {
          if(!p.lit('[')) return false;
          if(!p.lit(']'))
          {
            do { long long v; if(!p.num(v)) return false; o.decisions_in.push_back(uint32_t(v)); } while(p.lit(','));
            if(!p.lit(']')) return false;
          }
        }
        else if(!p.skip()) { if(err) *err = "bad value for " + k; return false; }
      } while(p.lit(','));
    }
    return true;
  }
}

// sanitizer defaults: abort() on report so that the SIGABRT path writes the trace
extern "C" __attribute__((used, visibility("default"))) const char* __asan_default_options()
{
  return "abort_on_error=1:detect_leaks=0:handle_abort=0:allocator_may_return_null=1:detect_stack_use_after_return=0";
}
extern "C" __attribute__((used, visibility("default"))) const char* __ubsan_default_options()
{
  return "halt_on_error=1:abort_on_error=1:print_stacktrace=0";
}
