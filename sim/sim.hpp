// Deterministic simulator core: tasks (real pthreads, parked/released one at a time), one PRNG,
// decision trace record/replay, discrete-event clock, budgets, event-log hash. See DESIGN.md 2.
#pragma once
#include <cstdint>
#include <functional>
#include <map>
#include <string>
#include <vector>

namespace sim
{
  enum Kind : uint8_t { SCHED = 0, FAULT = 1, DELAY = 2, PICK = 3 };

  struct Rng
  {
    uint64_t s[4];
    void seed(uint64_t a, uint64_t b);
    uint64_t next();
    uint64_t uniform(uint64_t n) { return n <= 1 ? 0 : next() % n; }
    double real() { return double(next() >> 11) * (1.0 / 9007199254740992.0); }
    bool bernoulli(double p) { return real() < p; }
  };

#ifndef SIM_MAX_TASKS
#define SIM_MAX_TASKS 128
#endif
  static constexpr int MAX_TASKS = SIM_MAX_TASKS;   // per run, finished tasks included (a build-time knob: vector clocks have this length)
  typedef std::vector<uint32_t> VClock;

  struct Options
  {
    std::string property;          // "C17"
    std::string harness;           // binary id
    uint64_t seed = 1;
    uint64_t run = 0;
    bool replay = false;
    std::map<std::string, long long> cfg_in;   // replay: explicit configuration
    std::vector<uint32_t> decisions_in;        // replay: decision list (zeros past the end)
    uint64_t max_steps = 2000000;
    std::string trace_out;         // where to write the trace on violation ("" = none)
    bool keep_trace = false;       // write the trace also for OK runs (determinism self-test / samples)
  };

  struct Stats
  {
    std::string cls = "OK";
    std::string msg;
    uint64_t steps = 0, sim_ns = 0, events = 0;
    uint64_t hash = 0;        // event-log hash
    uint64_t sched_hash = 0;  // hash of the (task) sequence chosen at scheduling decisions = interleaving id
    uint64_t decisions = 0, nonzero_decisions = 0;
    int tasks = 0;
    std::map<std::string, uint64_t> faults, probes;
    std::map<std::string, long long> cfg;
  };

  // ---- run lifecycle (controller thread) -------------------------------------------------------
  void run_begin(const Options& o);
  // configuration knobs: drawn from the run PRNG in seed mode, read from the replay file otherwise
  long long cfg_int(const char* name, long long lo, long long hi);
  long long cfg_weighted(const char* name, const std::vector<int>& weights);
  long long cfg_fixed(const char* name, long long dflt);   // never varied by exploration; a replay file may set it // index by weight
  bool thorough();               // tier knob: env VERIF_TIER=thorough in seed mode, recorded in the trace, read back on replay
  // fault kinds: enable bit and rate are swarm knobs of the run (cfg "f.<name>" = rate in permille, 0 = off)
  void fault_setup(const char* name, const std::vector<int>& permille_choices);
  int spawn(const std::string& name, std::function<void()> body);
  void run_go();                 // blocks the controller until every task has finished
  Stats run_end();
  std::string stats_json(const Stats& s);
  const Options& options();
  uint64_t run_serial();         // increments with every run_begin of this process

  // ---- inside tasks --------------------------------------------------------------------------------
  bool active();                 // simulation running and calling thread is a managed task
  int self();
  // the task that created the given task through the thread seam (-1 for tasks spawned by the harness)
  int parent_of(int task);
  int num_tasks();
  void yield(const char* tag);   // scheduling point, task stays enabled
  void hot();                    // hint: in-flight state was just created; the next scheduling decision is biased towards a preemption
  void block_until(const std::function<bool()>& ready, const char* what); // scheduling point, task disabled until ready()
  uint32_t decide(Kind k, uint32_t n, const char* tag);   // value in [0,n); 0 is the default/benign choice
  bool fault(const char* name);  // does fault point `name` fire now? (false if the kind is off in this run)
  bool fault_enabled(const char* name);
  uint64_t now_ns();
  void advance(uint64_t ns);
  void at(uint64_t t_ns, std::function<void()> fn);       // discrete event
  void sleep_ns(uint64_t ns);    // block the calling task for ns of simulated time
  void ev(const char* tag, uint64_t a = 0, uint64_t b = 0, uint64_t c = 0);  // event log (hash only)
  void probe(const char* name, uint64_t n = 1);
  void count_fault(const char* name, uint64_t n = 1);
  [[noreturn]] void fail(const char* cls, const std::string& msg);
  void note(const std::string& s);   // remembered (ring buffer) and dumped with a violation; never perturbs the run
  VClock& vclock();              // vector clock of the calling task
  void vc_tick();                // ++own component
  void vc_join(const VClock& o);
  std::string describe_tasks();
  // race flavour: memory accesses of the calling thread are not judged while one of these exists (bookkeeping of a harness
  // that relies on the baton - one task runs at a time - instead of locks); a no-op in the other flavours
  struct NoRace { NoRace(); ~NoRace(); };

  // interposers use these
  void* task_tls();              // opaque per-thread task pointer (nullptr = unmanaged thread)
  bool in_model();               // true while the calling thread executes simulator code
  struct ModelGuard { ModelGuard(); ~ModelGuard(); bool prev; };

  // thread creation through the pthread seam
  int spawn_pthread(void* (*start)(void*), void* arg, unsigned long* real_handle_out);
  bool task_finished(int id);
  int task_of_pthread(unsigned long h);
  void mark_joined(int id);
  const VClock& final_vclock(int id);
  void set_blocked_desc(const char* d);

  // pthread/clock model (interpose.cpp)
  void pthread_model_reset();
  enum { SYNC_ACQUIRE = 1, SYNC_RELEASE = 2 };
  // harness observer of mutex acquisitions/releases (exact linearisation order of critical sections)
  void set_sync_observer(void (*fn)(int what, const void* addr));
  void clock_reset();
  void clock_set_skew(int task, long long ns);
  void clock_set_read_cost(uint64_t ns);
  uint64_t clock_read_cost();
  uint64_t wall_ns();

  // minimal JSON helpers shared by harnesses
  std::string jstr(const std::string& s);
  bool load_replay(const std::string& path, Options& o, std::string* err);
  uint64_t fnv(const void* p, size_t n, uint64_t h = 1469598103934665603ull);

  // real (non-interposed) primitives
  namespace real
  {
    int gettimeofday_(void* tv);
  }
}
