// Link-time interposition of the pthread blocking primitives and of the wall clock (DESIGN.md 3.1, 2.5).
// Defined in the harness executable, so every call (also those made from inside libstdc++.so) lands here.
// Outside an active simulation, or on a thread the simulator does not manage, the real function is used.
#include "sim.hpp"
#include "real.hpp"

#include <errno.h>
#include <dlfcn.h>
#include <functional>
#include <map>
#include <set>
#include <vector>
#include <cstring>

namespace
{
  using sim::VClock;

  struct MutexState
  {
    int owner = -1;
    int count = 0;
    VClock vc;        // clock of the last release
    bool has_vc = false;
  };
  struct Waiter { int task; bool notified; };
  struct CondState
  {
    std::vector<Waiter*> waiters;
  };

  struct OnceState { int state = 0; int owner = -1; VClock vc; };   // 0 not run, 1 running, 2 done
  struct RwState { int writer = -1; std::set<int> readers; VClock vc_w, vc_r; bool has_w = false, has_r = false; };
  struct Model
  {
    std::map<const void*, MutexState> mtx;
    std::map<const void*, CondState> cond;
    std::map<const void*, OnceState> once;
    std::map<const void*, RwState> rw;
  };
  Model* M = nullptr;
  void (*g_sync_observer)(int what, const void* addr) = nullptr;
  inline void observe(int what, const void* addr) { if(g_sync_observer) g_sync_observer(what, addr); }
}

namespace sim
{
  // called from run_begin via weak reference? -> explicit API
  void pthread_model_reset()
  {
    ModelGuard g;
    delete M;
    M = new Model;
    g_sync_observer = nullptr;
  }
  void set_sync_observer(void (*fn)(int what, const void* addr)) { g_sync_observer = fn; }

  // per-task clock skew (ns), set by harnesses through clock_set_skew
  static std::map<int, long long>* g_skew = nullptr;
  void clock_set_skew(int task, long long ns)
  {
    ModelGuard g;
    if(!g_skew) g_skew = new std::map<int, long long>;
    (*g_skew)[task] = ns;
  }
  void clock_reset() { ModelGuard g; delete g_skew; g_skew = nullptr; }

  // simulated wall clock in ns since an arbitrary epoch, as seen by the calling task
  uint64_t wall_ns()
  {
    long long skew = 0;
    if(g_skew) { auto it = g_skew->find(self()); if(it != g_skew->end()) skew = it->second; }
    return uint64_t(1700000000ll * 1000000000ll + (long long)now_ns() + skew);
  }

  // knob: ns added to the simulated clock by every clock read (models work between reads)
  static uint64_t g_clock_read_cost = 0;
  void clock_set_read_cost(uint64_t ns) { g_clock_read_cost = ns; }
  uint64_t clock_read_cost() { return g_clock_read_cost; }
}

using namespace sim;

static inline bool is_recursive(const pthread_mutex_t* m)
{
  return (m->__data.__kind & 3) == PTHREAD_MUTEX_RECURSIVE_NP;
}

static int model_lock(pthread_mutex_t* m, bool try_only, bool is_mutex = true)
{
  yield("mutex_lock");   // scheduling point before the acquisition
  ModelGuard g;
  MutexState* s = &M->mtx[m];
  int me = self();
  if(s->owner == me)
  {
    if(is_mutex && is_recursive(m)) { ++s->count; return 0; }
    if(try_only) return EBUSY;
    fail("DEADLOCK", "task relocks a non-recursive mutex it already owns: " + describe_tasks());
  }
  if(s->owner != -1)
  {
    if(try_only) return EBUSY;
    probe("mutex_contended");
    std::function<bool()> ready = [s]() { return s->owner == -1; };
    block_until(ready, "mutex");
  }
  s->owner = me;
  s->count = 1;
  if(s->has_vc) vc_join(s->vc);
  observe(SYNC_ACQUIRE, m);
  return 0;
}

static int model_unlock(pthread_mutex_t* m, bool* known)
{
  ModelGuard g;
  auto it = M->mtx.find(m);
  if(it == M->mtx.end() || it->second.owner != self()) { *known = false; return 0; }
  *known = true;
  MutexState& s = it->second;
  if(--s.count > 0) return 0;
  observe(SYNC_RELEASE, m);
  // release: the lock takes the clock of the critical section, the releasing task moves on to a new epoch
  s.vc = vclock();
  s.has_vc = true;
  vc_tick();
  s.owner = -1;
  return 0;
}

extern "C"
{
  int pthread_mutex_lock(pthread_mutex_t* m)
  {
    if(!active() || !M) return real::tab().mutex_lock(m);
    return model_lock(m, false);
  }

  int pthread_mutex_trylock(pthread_mutex_t* m)
  {
    if(!active() || !M) return real::tab().mutex_trylock(m);
    return model_lock(m, true);
  }

  int pthread_mutex_unlock(pthread_mutex_t* m)
  {
    if(!active() || !M) return real::tab().mutex_unlock(m);
    bool known = false;
    int rc = model_unlock(m, &known);
    if(!known) return real::tab().mutex_unlock(m);
    yield("mutex_unlock");
    return rc;
  }

  static int model_cond_wait(pthread_cond_t* c, pthread_mutex_t* m)
  {
    // scheduling point between the caller's predicate test and its registration as a waiter: the window in which a
    // notification sent without the mutex is lost (the caller still holds the mutex here, so a notifier that takes the
    // mutex cannot get in)
    yield("cond_wait_enter");
    Waiter w;
    {
      ModelGuard g;
      w.task = self(); w.notified = false;
      M->cond[c].waiters.push_back(&w);
      bool known = false;
      model_unlock(m, &known);
      if(!known) fail("MODEL", "cond_wait with a mutex the model does not know as locked by the caller");
      // SPURIOUS_WAKEUP: POSIX and C++ allow wait() to return without a notification
      Waiter* wp = &w;
      bool spurious = fault("SPURIOUS_WAKEUP");
      if(spurious) probe("spurious_wakeup_injected");
      else probe("cond_wait_blocked");
      std::function<bool()> ready = [wp, spurious]() { return wp->notified || spurious; };
      block_until(ready, "condvar");
      // remove from the waiter list if still there (spurious wake-up)
      auto& ws = M->cond[c].waiters;
      for(size_t i = 0; i < ws.size(); ++i) if(ws[i] == &w) { ws.erase(ws.begin() + long(i)); break; }
    }
    // re-acquire the mutex
    {
      ModelGuard g;
      MutexState* s = &M->mtx[m];
      if(s->owner != -1)
      {
        std::function<bool()> ready = [s]() { return s->owner == -1; };
        block_until(ready, "mutex(after condvar)");
      }
      s->owner = self(); s->count = 1;
      if(s->has_vc) vc_join(s->vc);
      observe(SYNC_ACQUIRE, m);
    }
    return 0;
  }

  int pthread_cond_wait(pthread_cond_t* c, pthread_mutex_t* m)
  {
    if(!active() || !M) return real::tab().cond_wait(c, m);
    return model_cond_wait(c, m);
  }

  int pthread_cond_timedwait(pthread_cond_t* c, pthread_mutex_t* m, const struct timespec* ts)
  {
    if(!active() || !M) return real::tab().cond_timedwait(c, m, ts);
    // modelled as an untimed wait (FEAT has no timed waits; a timeout is a legal spurious return anyway)
    return model_cond_wait(c, m);
  }

  int pthread_cond_clockwait(pthread_cond_t* c, pthread_mutex_t* m, clockid_t cl, const struct timespec* ts)
  {
    if(!active() || !M) return real::tab().cond_clockwait(c, m, cl, ts);
    return model_cond_wait(c, m);
  }

  int pthread_cond_broadcast(pthread_cond_t* c)
  {
    if(!active() || !M) return real::tab().cond_broadcast(c);
    {
      ModelGuard g;
      auto it = M->cond.find(c);
      if(it != M->cond.end())
      {
        for(Waiter* w : it->second.waiters) w->notified = true;
        it->second.waiters.clear();
      }
    }
    yield("cond_broadcast");
    return 0;
  }

  int pthread_cond_signal(pthread_cond_t* c)
  {
    if(!active() || !M) return real::tab().cond_signal(c);
    {
      ModelGuard g;
      auto it = M->cond.find(c);
      if(it != M->cond.end() && !it->second.waiters.empty())
      {
        auto& ws = it->second.waiters;
        uint32_t k = decide(PICK, uint32_t(ws.size()), "cond_signal");
        ws[k]->notified = true;
        ws.erase(ws.begin() + long(k));
      }
    }
    yield("cond_signal");
    return 0;
  }

  int pthread_create(pthread_t* th, const pthread_attr_t* attr, void* (*start)(void*), void* arg)
  {
    if(!active() || !M) return real::tab().create(th, attr, start, arg);
    unsigned long h = 0;
    spawn_pthread(start, arg, &h);
    *th = (pthread_t)h;
    probe("thread_created");
    yield("pthread_create");
    return 0;
  }

  int pthread_join(pthread_t th, void** rv)
  {
    if(!active() || !M) return real::tab().join(th, rv);
    int id;
    {
      ModelGuard g;
      id = task_of_pthread((unsigned long)th);
    }
    if(id < 0) return real::tab().join(th, rv);
    {
      ModelGuard g;
      if(!task_finished(id))
      {
        std::function<bool()> ready = [id]() { return task_finished(id); };
        block_until(ready, "join");
      }
      vc_join(final_vclock(id));
      mark_joined(id);
    }
    return real::tab().join(th, rv);
  }

  // ---- pthread_once (std::call_once), reader-writer locks (std::shared_mutex), spin locks: not used by FEAT's threaded
  // assembly today, modelled so that code which synchronises through them is scheduled and judged correctly
  int pthread_once(pthread_once_t* c, void (*fn)(void))
  {
    typedef int (*once_t)(pthread_once_t*, void (*)(void));
    static once_t real_once = (once_t)dlsym(RTLD_NEXT, "pthread_once");
    if(!active() || !M) return real_once(c, fn);
    // no scheduling point of its own: whether a once-routine still has to run depends on what the process did before
    // this simulated run (a routine that ran in an earlier run of the same process is done), and the schedule of a run
    // must not depend on that. A task only blocks here while another task is inside the routine.
    {
      ModelGuard g;
      OnceState* o = &M->once[c];
      if(o->state == 0 && *c != PTHREAD_ONCE_INIT) o->state = 2;   // completed before the simulation started
      if(o->state == 1 && o->owner != self())
      {
        std::function<bool()> ready = [o]() { return o->state != 1; };
        block_until(ready, "pthread_once");
      }
      if(o->state == 2) { if(!o->vc.empty()) vc_join(o->vc); return 0; }
      if(o->state == 1) fail("DEADLOCK", "pthread_once called recursively from its own init routine: " + describe_tasks());
      o->state = 1; o->owner = self();
    }
    fn();
    {
      ModelGuard g;
      OnceState* o = &M->once[c];
      o->vc = vclock();
      vc_tick();
      o->state = 2;
      *c = 2;   // glibc's "done" state: calls outside the simulation must not run the routine again
    }
    return 0;
  }

  static int model_rw_lock(pthread_rwlock_t* l, bool write, bool try_only)
  {
    yield(write ? "rwlock_wrlock" : "rwlock_rdlock");
    ModelGuard g;
    RwState* s = &M->rw[l];
    const int me = self();
    if(s->writer == me || s->readers.count(me)) { if(try_only) return EBUSY; fail("DEADLOCK", "task relocks a reader-writer lock it already holds: " + describe_tasks()); }
    auto free_for = [s, write]() { return s->writer == -1 && (!write || s->readers.empty()); };
    if(!free_for())
    {
      if(try_only) return EBUSY;
      std::function<bool()> ready = free_for;
      block_until(ready, "rwlock");
    }
    if(write) { s->writer = me; if(s->has_r) vc_join(s->vc_r); }
    else s->readers.insert(me);
    if(s->has_w) vc_join(s->vc_w);
    return 0;
  }
  int pthread_rwlock_rdlock(pthread_rwlock_t* l)
  {
    typedef int (*fn_t)(pthread_rwlock_t*); static fn_t real_fn = (fn_t)dlsym(RTLD_NEXT, "pthread_rwlock_rdlock");
    if(!active() || !M) return real_fn(l);
    return model_rw_lock(l, false, false);
  }
  int pthread_rwlock_tryrdlock(pthread_rwlock_t* l)
  {
    typedef int (*fn_t)(pthread_rwlock_t*); static fn_t real_fn = (fn_t)dlsym(RTLD_NEXT, "pthread_rwlock_tryrdlock");
    if(!active() || !M) return real_fn(l);
    return model_rw_lock(l, false, true);
  }
  int pthread_rwlock_wrlock(pthread_rwlock_t* l)
  {
    typedef int (*fn_t)(pthread_rwlock_t*); static fn_t real_fn = (fn_t)dlsym(RTLD_NEXT, "pthread_rwlock_wrlock");
    if(!active() || !M) return real_fn(l);
    return model_rw_lock(l, true, false);
  }
  int pthread_rwlock_trywrlock(pthread_rwlock_t* l)
  {
    typedef int (*fn_t)(pthread_rwlock_t*); static fn_t real_fn = (fn_t)dlsym(RTLD_NEXT, "pthread_rwlock_trywrlock");
    if(!active() || !M) return real_fn(l);
    return model_rw_lock(l, true, true);
  }
  int pthread_rwlock_unlock(pthread_rwlock_t* l)
  {
    typedef int (*fn_t)(pthread_rwlock_t*); static fn_t real_fn = (fn_t)dlsym(RTLD_NEXT, "pthread_rwlock_unlock");
    if(!active() || !M) return real_fn(l);
    {
      ModelGuard g;
      auto it = M->rw.find(l);
      const int me = self();
      if(it == M->rw.end() || (it->second.writer != me && !it->second.readers.count(me))) return real_fn(l);   // locked outside the model
      RwState& s = it->second;
      const VClock& vc = vclock();
      if(s.writer == me) { s.writer = -1; s.vc_w = vc; s.has_w = true; }
      else
      {
        s.readers.erase(me);
        if(!s.has_r) { s.vc_r = vc; s.has_r = true; } else for(size_t i = 0; i < vc.size(); ++i) if(vc[i] > s.vc_r[i]) s.vc_r[i] = vc[i];
      }
      vc_tick();
    }
    yield("rwlock_unlock");
    return 0;
  }

  // spin locks are mutexes for the model (a real spin would stall the baton)
  int pthread_spin_lock(pthread_spinlock_t* l)
  {
    typedef int (*fn_t)(pthread_spinlock_t*); static fn_t real_fn = (fn_t)dlsym(RTLD_NEXT, "pthread_spin_lock");
    if(!active() || !M) return real_fn(l);
    return model_lock((pthread_mutex_t*)(void*)l, false, false);
  }
  int pthread_spin_trylock(pthread_spinlock_t* l)
  {
    typedef int (*fn_t)(pthread_spinlock_t*); static fn_t real_fn = (fn_t)dlsym(RTLD_NEXT, "pthread_spin_trylock");
    if(!active() || !M) return real_fn(l);
    return model_lock((pthread_mutex_t*)(void*)l, true, false);
  }
  int pthread_spin_unlock(pthread_spinlock_t* l)
  {
    typedef int (*fn_t)(pthread_spinlock_t*); static fn_t real_fn = (fn_t)dlsym(RTLD_NEXT, "pthread_spin_unlock");
    if(!active() || !M) return real_fn(l);
    bool known = false;
    model_unlock((pthread_mutex_t*)(void*)l, &known);
    if(!known) return real_fn(l);
    yield("spin_unlock");
    return 0;
  }

  int sched_yield(void)
  {
    if(!active() || !M) return real::tab().sched_yield();
    yield("sched_yield");
    return 0;
  }

  // ---- clock ----------------------------------------------------------------------------------
  int gettimeofday(struct timeval* tv, void* tz)
  {
    if(!active()) return real::tab().gettimeofday(tv, tz);
    advance(clock_read_cost());
    yield("gettimeofday");
    uint64_t t = wall_ns();
    tv->tv_sec = time_t(t / 1000000000ull);
    tv->tv_usec = suseconds_t((t % 1000000000ull) / 1000ull);
    return 0;
  }

  time_t time(time_t* out)
  {
    if(!active()) return real::tab().time(out);
    advance(clock_read_cost());
    yield("time");
    time_t t = time_t(wall_ns() / 1000000000ull);
    if(out) *out = t;
    return t;
  }
}

// ---- libstdc++'s futex waits (std::future/std::promise/std::shared_future::wait, std::async): the wait itself is a
// futex system call made inside libstdc++.so - not a pthread primitive - and would block the thread that holds the
// baton. The library funnels all of them through these three members of __atomic_futex_unsigned_base; defined here, the
// executable's definitions take precedence over the library's. A waiter blocks in the model until the word changes; the
// happens-before edge comes from the atomic operations on the word around the wait (inline in the headers).
#include <future>
#if defined(_GLIBCXX_HAVE_LINUX_FUTEX) && ATOMIC_INT_LOCK_FREE > 1
namespace
{
  bool futex_model_wait(unsigned* addr, unsigned val, bool has_timeout)
  {
    yield("futex_wait");
    if(__atomic_load_n(addr, __ATOMIC_SEQ_CST) != val) return true;
    if(has_timeout) return false;   // timed waits never sleep in the model: the caller sees a timeout and polls again
    ModelGuard g;
    std::function<bool()> ready = [addr, val]() { return __atomic_load_n(addr, __ATOMIC_SEQ_CST) != val; };
    probe("futex_wait_blocked");
    block_until(ready, "futex");
    return true;
  }
  typedef long (*syscall_fn_t)(long, ...);
}
namespace std
{
  bool __atomic_futex_unsigned_base::_M_futex_wait_until(unsigned* addr, unsigned val, bool has_timeout, chrono::seconds s, chrono::nanoseconds ns)
  {
    if(active() && M) return futex_model_wait(addr, val, has_timeout);
    // outside a simulation: plain futex wait without timeout handling beyond "wake up and let the caller re-check"
    (void)s; (void)ns;
    static syscall_fn_t sc = (syscall_fn_t)dlsym(RTLD_NEXT, "syscall");
    sc(202 /* SYS_futex */, addr, 0 /* FUTEX_WAIT */, val, nullptr, nullptr, 0);
    return true;
  }
  bool __atomic_futex_unsigned_base::_M_futex_wait_until_steady(unsigned* addr, unsigned val, bool has_timeout, chrono::seconds s, chrono::nanoseconds ns)
  {
    return _M_futex_wait_until(addr, val, has_timeout, s, ns);
  }
  void __atomic_futex_unsigned_base::_M_futex_notify_all(unsigned* addr)
  {
    if(active() && M) { yield("futex_notify"); return; }   // blocked model tasks re-evaluate their predicate
    static syscall_fn_t sc = (syscall_fn_t)dlsym(RTLD_NEXT, "syscall");
    sc(202, addr, 1 /* FUTEX_WAKE */, 0x7fffffff, nullptr, nullptr, 0);
  }
}
#endif
