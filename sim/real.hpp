// Access to the real (non-interposed) libc/libpthread entry points via dlsym(RTLD_NEXT).
#pragma once
#include <pthread.h>
#include <sys/time.h>
#include <time.h>

namespace sim { namespace real {
  typedef int (*pthread_create_t)(pthread_t*, const pthread_attr_t*, void* (*)(void*), void*);
  typedef int (*pthread_join_t)(pthread_t, void**);
  typedef int (*pthread_detach_t)(pthread_t);
  typedef int (*mutex_fn_t)(pthread_mutex_t*);
  typedef int (*cond_wait_t)(pthread_cond_t*, pthread_mutex_t*);
  typedef int (*cond_timedwait_t)(pthread_cond_t*, pthread_mutex_t*, const struct timespec*);
  typedef int (*cond_clockwait_t)(pthread_cond_t*, pthread_mutex_t*, clockid_t, const struct timespec*);
  typedef int (*cond_fn_t)(pthread_cond_t*);
  typedef int (*gettimeofday_t)(struct timeval*, void*);
  typedef time_t (*time_fn_t)(time_t*);
  typedef int (*clock_gettime_t)(clockid_t, struct timespec*);
  typedef int (*sched_yield_t)(void);
  typedef int (*nanosleep_t)(const struct timespec*, struct timespec*);
  typedef int (*usleep_t)(unsigned);

  struct Table
  {
    pthread_create_t create;
    pthread_join_t join;
    pthread_detach_t detach;
    mutex_fn_t mutex_lock, mutex_trylock, mutex_unlock;
    cond_wait_t cond_wait;
    cond_timedwait_t cond_timedwait;
    cond_clockwait_t cond_clockwait;
    cond_fn_t cond_signal, cond_broadcast;
    gettimeofday_t gettimeofday;
    time_fn_t time;
    clock_gettime_t clock_gettime;
    sched_yield_t sched_yield;
    nanosleep_t nanosleep;
    usleep_t usleep;
  };
  const Table& tab();
}}
