// Guard-zone allocator for the "guard" flavour (no sanitizers): replaces the global operator new/delete, puts 64
// pattern bytes in front of and behind every block and checks them when the block is freed. It sees what ASan cannot:
// stores made by uninstrumented library code (e.g. libstdc++'s istream >> double) just past the end of a heap block.
#include "sim.hpp"
#include <cstdlib>
#include <cstring>
#include <new>

namespace
{
  constexpr size_t GUARD = 64;
  constexpr unsigned char PAT = 0xA7;
  struct Header { size_t size; size_t magic; };
  constexpr size_t MAGIC = 0x5EEDFACEC0FFEEull;
  thread_local bool t_reporting = false;

  void* galloc(size_t n)
  {
    unsigned char* raw = (unsigned char*)malloc(sizeof(Header) + 2 * GUARD + n);
    if(!raw) throw std::bad_alloc();
    Header* h = (Header*)raw;
    h->size = n; h->magic = MAGIC;
    memset(raw + sizeof(Header), PAT, GUARD);
    memset(raw + sizeof(Header) + GUARD + n, PAT, GUARD);
    return raw + sizeof(Header) + GUARD;
  }

  void gfree(void* p)
  {
    if(!p) return;
    unsigned char* user = (unsigned char*)p;
    unsigned char* raw = user - GUARD - sizeof(Header);
    Header* h = (Header*)raw;
    if(h->magic != MAGIC)
    {
      // not ours (allocated before the replacement took effect, or header destroyed): leave it to libc
      if(!t_reporting) { t_reporting = true; sim::fail("HEAP_GUARD", "heap block header destroyed (underrun of more than 64 bytes or foreign pointer passed to delete)"); }
      return;
    }
    size_t bad_front = 0, bad_back = 0;
    for(size_t i = 0; i < GUARD; ++i) { if(raw[sizeof(Header) + i] != PAT) ++bad_front; if(user[h->size + i] != PAT) ++bad_back; }
    if((bad_front || bad_back) && !t_reporting)
    {
      t_reporting = true;
      sim::fail("HEAP_GUARD", "heap block of " + std::to_string(h->size) + " bytes overrun: " + std::to_string(bad_back) + " guard bytes damaged behind it, " + std::to_string(bad_front) + " in front of it");
    }
    h->magic = 0;
    free(raw);
  }
}

void* operator new(size_t n) { return galloc(n); }
void* operator new[](size_t n) { return galloc(n); }
void* operator new(size_t n, const std::nothrow_t&) noexcept { try { return galloc(n); } catch(...) { return nullptr; } }
void* operator new[](size_t n, const std::nothrow_t&) noexcept { try { return galloc(n); } catch(...) { return nullptr; } }
void operator delete(void* p) noexcept { gfree(p); }
void operator delete[](void* p) noexcept { gfree(p); }
void operator delete(void* p, size_t) noexcept { gfree(p); }
void operator delete[](void* p, size_t) noexcept { gfree(p); }
void operator delete(void* p, const std::nothrow_t&) noexcept { gfree(p); }
void operator delete[](void* p, const std::nothrow_t&) noexcept { gfree(p); }
