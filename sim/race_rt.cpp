// "race" flavour: a happens-before data-race detector for the code under test, driven by the compiler's thread-sanitizer
// instrumentation but with this file as the runtime instead of libtsan. Every load/store of instrumented code (harness +
// FEAT headers + kernel sources, compiled with -fsanitize=thread) arrives here; the detector keeps, per accessed location,
// the last write and the last reads as (task, epoch, code address) and compares them with the vector clock of the calling
// task - the same vector clocks the pthread model maintains (unlock->lock, create->start, exit->join; atomics and the
// guards of function-local statics are added below). Two conflicting accesses that are not ordered by happens-before end
// the run as DATA_RACE, no matter whether the schedule of this run put them close together: under the baton scheduler
// only one thread runs at a time, so the real TSan runtime (which would see the baton hand-over as synchronisation) and
// the hardware never see a race; this detector judges the ordering the program itself established.
// Memory is never reused within a run (operator delete and free are deferred to the end of the run), so that a location
// handed from one thread to another through the allocator is not mistaken for a shared one.
#include "sim.hpp"

#include <cstdint>
#include <cstdlib>
#include <cstring>
#include <cstdio>
#include <new>
#include <string>
#include <vector>
#include <unordered_map>
#include <dlfcn.h>
#include <cxxabi.h>
#include <malloc.h>

extern "C" void __real_free(void*);
extern "C" int sim_race_domain(int task) __attribute__((weak));

namespace
{
  struct Acc { uint32_t clk = 0; int16_t task = -1; uint8_t size = 0; uint8_t pad = 0; const void* pc = nullptr; };
  struct Cell { uintptr_t key = 0; uint32_t gen = 0; Acc w; Acc r[3]; };

  constexpr size_t TABLE_BITS = 22;
  constexpr size_t TABLE_SIZE = size_t(1) << TABLE_BITS;
  Cell* g_table = nullptr;
  uint32_t g_gen = 1;
  bool g_active = false;
  uint64_t g_accesses = 0, g_cells = 0, g_sync_ops = 0, g_dropped = 0;
  std::unordered_map<uintptr_t, sim::VClock>* g_sync = nullptr;   // atomics and static guards: clock released at the address
  std::vector<void*>* g_quarantine = nullptr;
  thread_local bool t_inside = false;
  thread_local int t_paused = 0;

  inline Cell* lookup(uintptr_t key)
  {
    size_t h = size_t((key * 0x9E3779B97F4A7C15ull) >> (64 - TABLE_BITS));
    for(size_t probe = 0; probe < 64; ++probe)
    {
      Cell& c = g_table[(h + probe) & (TABLE_SIZE - 1)];
      if(c.gen != g_gen) { c = Cell(); c.key = key; c.gen = g_gen; ++g_cells; return &c; }
      if(c.key == key) return &c;
    }
    ++g_dropped;
    return nullptr;   // table region full: this location is not tracked (a race there can be missed, never invented)
  }

  std::string where(const void* pc)
  {
    Dl_info di;
    if(pc && dladdr(pc, &di) && di.dli_sname)
    {
      int st = 0; char* dm = abi::__cxa_demangle(di.dli_sname, nullptr, nullptr, &st);
      std::string n = (st == 0 && dm) ? dm : di.dli_sname;
      __real_free(dm);
      if(n.size() > 220) n = n.substr(0, 220) + "...";
      return n;
    }
    if(pc && dladdr(pc, &di) && di.dli_fname)
    {
      // a function without a dynamic symbol (internal linkage): module offset, resolvable with addr2line -e <binary>
      const char* b = strrchr(di.dli_fname, '/');
      char buf[64]; snprintf(buf, sizeof(buf), "+0x%lx", (unsigned long)((const char*)pc - (const char*)di.dli_fbase));
      return std::string(b ? b + 1 : di.dli_fname) + buf;
    }
    return "?";
  }

  // different simulated processes (SimMPI ranks) share memory only because they live in one address space here
  inline bool same_process(int a, int b) { return !sim_race_domain || sim_race_domain(a) == sim_race_domain(b); }

  [[noreturn]] void report(const char* what_now, const void* pc_now, const Acc& old, const char* what_old, uintptr_t addr, int me)
  {
    t_inside = true;
    g_active = false;
    std::string m = std::string("data race: ") + what_now + " of " + std::to_string(int(old.size)) + " byte(s) by task " + std::to_string(me) + " in " + where(pc_now) +
      " is not ordered (happens-before) after the " + what_old + " by task " + std::to_string(int(old.task)) + " in " + where(old.pc);
    (void)addr;
    sim::fail("DATA_RACE", m);
  }

  inline bool ordered(const Acc& a, const sim::VClock& vc) { return a.task < 0 || vc[size_t(a.task)] >= a.clk; }

  inline void access(uintptr_t addr, unsigned size, bool is_write, const void* pc)
  {
    if(!g_active || t_inside || t_paused) return;
    if(sim::task_tls() == nullptr || sim::in_model()) return;
    t_inside = true;
    ++g_accesses;
    Cell* c = lookup(addr);
    if(c)
    {
      const sim::VClock& vc = sim::vclock();
      const int me = sim::self();
      const uint32_t now = vc[size_t(me)];
      if(c->w.task >= 0 && c->w.task != me && !ordered(c->w, vc) && same_process(c->w.task, me)) report(is_write ? "write" : "read", pc, c->w, "write", addr, me);
      if(is_write)
      {
        for(Acc& r : c->r) if(r.task >= 0 && r.task != me && !ordered(r, vc) && same_process(r.task, me)) report("write", pc, r, "read", addr, me);
        c->w.task = int16_t(me); c->w.clk = now; c->w.size = uint8_t(size); c->w.pc = pc;
        for(Acc& r : c->r) r.task = -1;   // all earlier reads are ordered before this write
      }
      else
      {
        Acc* slot = nullptr;
        for(Acc& r : c->r) if(r.task == me) { slot = &r; break; }
        if(!slot) for(Acc& r : c->r) if(r.task < 0 || ordered(r, vc)) { slot = &r; break; }   // an ordered read is subsumed by this one
        if(slot) { slot->task = int16_t(me); slot->clk = now; slot->size = uint8_t(size); slot->pc = pc; }
        // more than three concurrent readers: the fourth is not remembered (a race with it can be missed)
      }
    }
    t_inside = false;
  }

  inline void range(uintptr_t addr, size_t size, bool is_write, const void* pc)
  {
    if(!g_active || t_inside) return;
    if(size > 4096) size = 4096;
    uintptr_t a = addr & ~uintptr_t(3);
    for(; a < addr + size; a += 4) access(a < addr ? addr : a, 4, is_write, pc);
  }

  // an atomic operation is a scheduling point in this flavour (lock-free code gets its interleavings explored, and a loop
  // that polls an atomic lets the other tasks run)
  inline void atomic_point()
  {
    if(!g_active || t_inside || t_paused || sim::task_tls() == nullptr || sim::in_model()) return;
    sim::yield("atomic");
  }

  // synchronisation through an address (atomic variable, guard of a function-local static)
  inline void sync_acquire(uintptr_t addr)
  {
    if(!g_active || t_inside || sim::task_tls() == nullptr || sim::in_model()) return;
    t_inside = true;
    auto it = g_sync->find(addr);
    if(it != g_sync->end()) sim::vc_join(it->second);
    ++g_sync_ops;
    t_inside = false;
  }
  inline void sync_release(uintptr_t addr)
  {
    if(!g_active || t_inside || sim::task_tls() == nullptr || sim::in_model()) return;
    t_inside = true;
    sim::VClock& dst = (*g_sync)[addr];
    const sim::VClock& vc = sim::vclock();
    if(dst.empty()) dst = vc; else for(size_t i = 0; i < vc.size(); ++i) if(vc[i] > dst[i]) dst[i] = vc[i];
    sim::vc_tick();
    ++g_sync_ops;
    t_inside = false;
  }
}

extern "C"
{
  void __real_free(void*);
  // called by the simulator core around every run
  void sim_race_rt_begin()
  {
    if(!g_table) { g_table = (Cell*)calloc(TABLE_SIZE, sizeof(Cell)); g_sync = new std::unordered_map<uintptr_t, sim::VClock>(); g_quarantine = new std::vector<void*>(); }
    ++g_gen;
    g_sync->clear();
    g_accesses = g_cells = g_sync_ops = g_dropped = 0;
    g_active = true;
  }
  void sim_race_rt_end(unsigned long long* c)
  {
    g_active = false;
    c[0] = g_accesses; c[1] = g_cells; c[2] = g_sync_ops; c[3] = g_dropped;
    if(g_quarantine) { std::vector<void*> q; q.swap(*g_quarantine); for(void* p : q) __real_free(p); }
  }
  void sim_race_rt_pause(int on) { if(on) ++t_paused; else --t_paused; }
}

// ---- allocator: nothing is reused while a run is active
static void* rt_alloc(size_t n) { void* p = malloc(n ? n : 1); if(!p) throw std::bad_alloc(); return p; }
static void rt_free(void* p)
{
  if(!p) return;
  if(g_active && g_quarantine && !t_inside) { t_inside = true; g_quarantine->push_back(p); t_inside = false; return; }
  __real_free(p);
}
void* operator new(size_t n) { return rt_alloc(n); }
void* operator new[](size_t n) { return rt_alloc(n); }
void* operator new(size_t n, const std::nothrow_t&) noexcept { return malloc(n ? n : 1); }
void* operator new[](size_t n, const std::nothrow_t&) noexcept { return malloc(n ? n : 1); }
void operator delete(void* p) noexcept { rt_free(p); }
void operator delete[](void* p) noexcept { rt_free(p); }
void operator delete(void* p, size_t) noexcept { rt_free(p); }
void operator delete[](void* p, size_t) noexcept { rt_free(p); }
void operator delete(void* p, const std::nothrow_t&) noexcept { rt_free(p); }
void operator delete[](void* p, const std::nothrow_t&) noexcept { rt_free(p); }

extern "C"
{
  // free() as called from the instrumented objects (linked with -Wl,--wrap=free): MemoryPool releases its arrays this way
  void __wrap_free(void* p) { rt_free(p); }

  // guards of function-local statics (linked with --wrap): the initialising thread releases, every later user acquires
  int __real___cxa_guard_acquire(void*);
  void __real___cxa_guard_release(void*);
  int __wrap___cxa_guard_acquire(void* g) { int r = __real___cxa_guard_acquire(g); if(r == 0) sync_acquire(uintptr_t(g)); return r; }
  void __wrap___cxa_guard_release(void* g) { sync_release(uintptr_t(g)); __real___cxa_guard_release(g); }

  void __tsan_init() {}
  void __tsan_func_entry(void*) {}
  void __tsan_func_exit() {}

#define RT_PC __builtin_return_address(0)
  void __tsan_read1(void* a) { access(uintptr_t(a), 1, false, RT_PC); }
  void __tsan_read2(void* a) { access(uintptr_t(a), 2, false, RT_PC); }
  void __tsan_read4(void* a) { access(uintptr_t(a), 4, false, RT_PC); }
  void __tsan_read8(void* a) { access(uintptr_t(a), 8, false, RT_PC); }
  void __tsan_read16(void* a) { access(uintptr_t(a), 8, false, RT_PC); access(uintptr_t(a) + 8, 8, false, RT_PC); }
  void __tsan_write1(void* a) { access(uintptr_t(a), 1, true, RT_PC); }
  void __tsan_write2(void* a) { access(uintptr_t(a), 2, true, RT_PC); }
  void __tsan_write4(void* a) { access(uintptr_t(a), 4, true, RT_PC); }
  void __tsan_write8(void* a) { access(uintptr_t(a), 8, true, RT_PC); }
  void __tsan_write16(void* a) { access(uintptr_t(a), 8, true, RT_PC); access(uintptr_t(a) + 8, 8, true, RT_PC); }
  void __tsan_unaligned_read2(void* a) { access(uintptr_t(a), 2, false, RT_PC); }
  void __tsan_unaligned_read4(void* a) { access(uintptr_t(a), 4, false, RT_PC); }
  void __tsan_unaligned_read8(void* a) { access(uintptr_t(a), 8, false, RT_PC); }
  void __tsan_unaligned_read16(void* a) { access(uintptr_t(a), 8, false, RT_PC); access(uintptr_t(a) + 8, 8, false, RT_PC); }
  void __tsan_unaligned_write2(void* a) { access(uintptr_t(a), 2, true, RT_PC); }
  void __tsan_unaligned_write4(void* a) { access(uintptr_t(a), 4, true, RT_PC); }
  void __tsan_unaligned_write8(void* a) { access(uintptr_t(a), 8, true, RT_PC); }
  void __tsan_unaligned_write16(void* a) { access(uintptr_t(a), 8, true, RT_PC); access(uintptr_t(a) + 8, 8, true, RT_PC); }
  void __tsan_read_range(void* a, unsigned long n) { range(uintptr_t(a), n, false, RT_PC); }
  void __tsan_write_range(void* a, unsigned long n) { range(uintptr_t(a), n, true, RT_PC); }
  // vptr stores of constructors/destructors and vptr loads of virtual calls: object lifetime is judged through the
  // object's data members; the vptr itself is rewritten by every constructor level and is left out
  void __tsan_vptr_update(void**, void*) {}
  void __tsan_vptr_read(void**) {}

  // atomics: performed for real (sequentially consistent) and modelled as acquire+release on their address
#define RT_ATOMIC(N, T) \
  T __tsan_atomic##N##_load(const volatile T* a, int) { atomic_point(); sync_acquire(uintptr_t(a)); return __atomic_load_n(a, __ATOMIC_SEQ_CST); } \
  void __tsan_atomic##N##_store(volatile T* a, T v, int) { atomic_point(); sync_release(uintptr_t(a)); __atomic_store_n(a, v, __ATOMIC_SEQ_CST); } \
  T __tsan_atomic##N##_exchange(volatile T* a, T v, int) { atomic_point(); sync_acquire(uintptr_t(a)); sync_release(uintptr_t(a)); return __atomic_exchange_n(a, v, __ATOMIC_SEQ_CST); } \
  T __tsan_atomic##N##_fetch_add(volatile T* a, T v, int) { atomic_point(); sync_acquire(uintptr_t(a)); sync_release(uintptr_t(a)); return __atomic_fetch_add(a, v, __ATOMIC_SEQ_CST); } \
  T __tsan_atomic##N##_fetch_sub(volatile T* a, T v, int) { atomic_point(); sync_acquire(uintptr_t(a)); sync_release(uintptr_t(a)); return __atomic_fetch_sub(a, v, __ATOMIC_SEQ_CST); } \
  T __tsan_atomic##N##_fetch_and(volatile T* a, T v, int) { atomic_point(); sync_acquire(uintptr_t(a)); sync_release(uintptr_t(a)); return __atomic_fetch_and(a, v, __ATOMIC_SEQ_CST); } \
  T __tsan_atomic##N##_fetch_or(volatile T* a, T v, int) { atomic_point(); sync_acquire(uintptr_t(a)); sync_release(uintptr_t(a)); return __atomic_fetch_or(a, v, __ATOMIC_SEQ_CST); } \
  T __tsan_atomic##N##_fetch_xor(volatile T* a, T v, int) { atomic_point(); sync_acquire(uintptr_t(a)); sync_release(uintptr_t(a)); return __atomic_fetch_xor(a, v, __ATOMIC_SEQ_CST); } \
  T __tsan_atomic##N##_fetch_nand(volatile T* a, T v, int) { atomic_point(); sync_acquire(uintptr_t(a)); sync_release(uintptr_t(a)); return __atomic_fetch_nand(a, v, __ATOMIC_SEQ_CST); } \
  int __tsan_atomic##N##_compare_exchange_strong(volatile T* a, T* e, T v, int, int) { atomic_point(); sync_acquire(uintptr_t(a)); sync_release(uintptr_t(a)); return __atomic_compare_exchange_n(a, e, v, false, __ATOMIC_SEQ_CST, __ATOMIC_SEQ_CST); } \
  int __tsan_atomic##N##_compare_exchange_weak(volatile T* a, T* e, T v, int, int) { atomic_point(); sync_acquire(uintptr_t(a)); sync_release(uintptr_t(a)); return __atomic_compare_exchange_n(a, e, v, false, __ATOMIC_SEQ_CST, __ATOMIC_SEQ_CST); } \
  T __tsan_atomic##N##_compare_exchange_val(volatile T* a, T e, T v, int, int) { atomic_point(); sync_acquire(uintptr_t(a)); sync_release(uintptr_t(a)); __atomic_compare_exchange_n(a, &e, v, false, __ATOMIC_SEQ_CST, __ATOMIC_SEQ_CST); return e; }
  RT_ATOMIC(8, uint8_t)
  RT_ATOMIC(16, uint16_t)
  RT_ATOMIC(32, uint32_t)
  RT_ATOMIC(64, uint64_t)
  void __tsan_atomic_thread_fence(int) { __atomic_thread_fence(__ATOMIC_SEQ_CST); }
  void __tsan_atomic_signal_fence(int) { __atomic_signal_fence(__ATOMIC_SEQ_CST); }
}
