// SimMPI: the MPI runtime replaced by a model living inside the deterministic simulator (DESIGN.md 3.2).
// Ranks are tasks of sim/; exactly one runs at a time, so no locking is needed in here. Everything MPI 3.1
// leaves open (message latency/arrival order between different senders, Waitany choice, Test readiness,
// eager vs rendezvous, collective exit, completion order of nonblocking collectives, reduction association)
// is a named, seeded decision; nothing MPI forbids (loss, duplication, corruption, overtaking) is ever done.
#include <mpi.h>
#include "simmpi.hpp"
#include "sim/sim.hpp"

#include <algorithm>
#include <cstdio>
#include <cstdlib>
#include <cstring>
#include <deque>

using namespace sim;

namespace simmpi
{
  namespace
  {
    struct CommRec
    {
      int id = 0;
      std::vector<int> ranks;            // world ranks, index = comm rank
      std::vector<uint64_t> coll_seq;    // per comm rank: number of collectives entered
      int refs = 0;                      // ranks that still hold the handle
      bool freed = false;
    };

    struct Msg
    {
      int comm, src, dst, tag;
      size_t bytes;
      std::vector<char> payload;
      const void* user_buf;
      bool rendezvous, arrived, matched;
      int send_req;
      uint64_t seq;
    };

    struct Req
    {
      enum Kind { NONE, SEND, RECV, COLL } kind = NONE;
      bool complete = false;
      int owner = -1;
      // recv
      void* buf = nullptr; size_t cap = 0; int src = 0, tag = 0, comm = 0;
      MPI_Status st{MPI_PROC_NULL, MPI_ANY_TAG, 0, 0};
      // nonblocking collective
      std::function<bool()> ready;
      std::function<void()> finish;
      uint64_t ready_at = 0;
      bool finished = false;
    };

    enum CollKind { K_BARRIER = 1, K_BCAST, K_GATHER, K_SCATTER, K_ALLGATHER, K_ALLGATHERV, K_ALLTOALL, K_ALLTOALLV,
                    K_REDUCE, K_ALLREDUCE, K_SCAN, K_EXSCAN, K_COMM_DUP, K_COMM_CREATE, K_COMM_SPLIT,
                    K_FILE_OPEN, K_FILE_CLOSE, K_FILE_SETSIZE, K_FILE_RORD, K_FILE_WORD, K_FILE_RATALL, K_FILE_WATALL };
    const char* kind_name(int k)
    {
      static const char* n[] = {"?", "Barrier", "Bcast", "Gather", "Scatter", "Allgather", "Allgatherv", "Alltoall", "Alltoallv", "Reduce",
        "Allreduce", "Scan", "Exscan", "Comm_dup", "Comm_create", "Comm_split", "File_open", "File_close", "File_set_size", "File_read_ordered", "File_write_ordered", "File_read_at_all", "File_write_at_all"};
      return (k >= 1 && k <= 22) ? n[k] : "?";
    }

    struct Slot
    {
      int kind = 0, root = -1, n = 0;
      long long param = -1;              // consistency parameter (bytes per rank / dtype+op / ...), -1 = not checked
      std::vector<char> arrived, left;
      int narr = 0, nleft = 0;
      std::vector<std::vector<char>> contrib;
      std::vector<std::vector<int>> aux;
      std::vector<char> result;
      bool result_ready = false;
      bool early = false;                // ranks may leave as soon as their own need is satisfied
      int assoc = 0;                     // association order of reductions
      std::vector<int> out_int;          // per rank integer result (comm/file handles, offsets)
      std::vector<std::vector<char>> out_data; // per rank data result (ordered reads)
    };

    struct FileRec
    {
      std::shared_ptr<File> f;
      size_t fp = 0;       // shared file pointer
      int comm = 0, amode = 0;
      int open_refs = 0;
    };

    struct World
    {
      int n = 0;
      std::vector<int> task_of_rank;
      std::map<int, int> rank_of_task;
      std::deque<CommRec> comms;                 // id = index
      std::deque<Req> reqs;                      // handle = index (0 = null)
      std::map<std::pair<int, uint64_t>, Slot> slots;  // (comm, seq)
      std::map<std::pair<int, int>, std::deque<Msg*>> unexpected;   // (comm, dst) arrived, unmatched
      std::map<std::pair<int, int>, std::deque<int>> posted;        // (comm, dst) posted receives (request handles)
      std::map<std::tuple<int, int, int>, uint64_t> last_arrival;   // (comm, src, dst)
      std::vector<Msg*> all_msgs;
      std::deque<std::vector<int>> groups;       // handle = index (0 = null)
      std::deque<FileRec> files;                 // handle = index (0 = null)
      uint64_t msg_seq = 0;
      // transport configuration of the run
      long long eager_limit = -1;                // -1 = infinity
      int lat_mode = 0;
      int inflight_icoll = 0;
      Counters cnt;
    };
    World* G = nullptr;
    bool g_initialized = false, g_finalized = false;
    std::map<std::string, std::shared_ptr<File>> g_fs;
    Counters g_last_counters;

    size_t dt_size(MPI_Datatype d)
    {
      switch(d)
      {
      case MPI_BYTE: case MPI_CHAR: case MPI_SIGNED_CHAR: case MPI_UNSIGNED_CHAR: case MPI_INT8_T: case MPI_UINT8_T: return 1;
      case MPI_SHORT: case MPI_UNSIGNED_SHORT: case MPI_INT16_T: case MPI_UINT16_T: return 2;
      case MPI_INT: case MPI_UNSIGNED: case MPI_FLOAT: case MPI_INT32_T: case MPI_UINT32_T: case MPI_WCHAR: return 4;
      case MPI_LONG: case MPI_UNSIGNED_LONG: case MPI_LONG_LONG: case MPI_UNSIGNED_LONG_LONG: case MPI_DOUBLE: case MPI_INT64_T: case MPI_UINT64_T: return 8;
      case MPI_LONG_DOUBLE: return sizeof(long double);
      default: break;
      }
      if(d >= 1000) return size_t(d - 1000); // contiguous byte types
      fail("MPI_USAGE", "unknown datatype handle " + std::to_string(d));
    }

    [[noreturn]] void usage(const std::string& m) { fail("MPI_USAGE", m); }

    int wrank()   // world rank of the caller
    {
      if(!G) return 0;
      // a helper thread created by a rank (FEAT_MPI_THREAD_MULTIPLE: SynchScalarTicket) acts for the rank of its creator
      for(int t = sim::self(); t >= 0; t = sim::parent_of(t))
      {
        auto it = G->rank_of_task.find(t);
        if(it != G->rank_of_task.end()) return it->second;
      }
      return 0;
    }

    int rank_of(int task)
    {
      if(!G) return -1;
      for(int t = task; t >= 0; t = sim::parent_of(t))
      {
        auto it = G->rank_of_task.find(t);
        if(it != G->rank_of_task.end()) return it->second;
      }
      return -1;
    }

    CommRec& comm_rec(MPI_Comm c, const char* fn)
    {
      if(!G) usage(std::string(fn) + " outside a simulated world");
      if(c == MPI_COMM_SELF) usage(std::string(fn) + ": collective/p2p on MPI_COMM_SELF is not modelled");
      if(c <= 0 || c >= int(G->comms.size()) || G->comms[size_t(c)].freed) usage(std::string(fn) + ": invalid communicator handle " + std::to_string(c));
      return G->comms[size_t(c)];
    }

    int crank(const CommRec& c, const char* fn)
    {
      int w = wrank();
      for(size_t i = 0; i < c.ranks.size(); ++i) if(c.ranks[i] == w) return int(i);
      usage(std::string(fn) + ": calling rank " + std::to_string(w) + " is not a member of communicator " + std::to_string(c.id));
    }

    int new_comm(const std::vector<int>& ranks)
    {
      CommRec c;
      c.id = int(G->comms.size());
      c.ranks = ranks;
      c.coll_seq.assign(ranks.size(), 0);
      c.refs = int(ranks.size());
      G->comms.push_back(c);
      ++G->cnt.comm_created;
      return c.id;
    }

    // ---------------------------------------------------------------------------------------------
    // point-to-point
    uint64_t draw_latency()
    {
      // bucketed latency; bucket 0 = minimal. The distribution is a per-run knob.
      static const uint64_t buckets[4] = {0, 3000, 40000, 1500000};
      if(!fault_enabled("MSG_DELAY")) return 0;
      uint32_t b;
      switch(G->lat_mode)
      {
      default:
      case 0: b = decide(DELAY, 2, "lat"); break;           // mostly minimal, some short delays
      case 1: b = decide(DELAY, 3, "lat"); break;
      case 2: b = decide(DELAY, 4, "lat"); break;           // heavy tail
      }
      if(b) count_fault("MSG_DELAY");
      return buckets[b];
    }

    void do_match(Msg* m, int rh)
    {
      Req& r = G->reqs[size_t(rh)];
      if(m->bytes > r.cap)
        usage("message truncated: " + std::to_string(m->bytes) + " bytes sent to a receive of " + std::to_string(r.cap) + " bytes (src " +
          std::to_string(m->src) + " tag " + std::to_string(m->tag) + ")");
      if(m->bytes > 0)
        memcpy(r.buf, m->rendezvous ? m->user_buf : (const void*)m->payload.data(), m->bytes);
      r.st.MPI_SOURCE = m->src; r.st.MPI_TAG = m->tag; r.st.MPI_ERROR = MPI_SUCCESS; r.st._bytes = int(m->bytes);
      r.complete = true;
      m->matched = true;
      if(m->rendezvous) G->reqs[size_t(m->send_req)].complete = true;
      std::vector<char>().swap(m->payload);
      ev("match", uint64_t(m->src) << 32 | uint64_t(uint32_t(m->dst)), uint64_t(m->tag), m->bytes);
    }

    inline bool matches(const Req& r, const Msg* m)
    {
      return (r.src == MPI_ANY_SOURCE || r.src == m->src) && (r.tag == MPI_ANY_TAG || r.tag == m->tag);
    }

    void deliver(Msg* m)
    {
      m->arrived = true;
      auto& pq = G->posted[{m->comm, m->dst}];
      for(size_t i = 0; i < pq.size(); ++i)
      {
        Req& r = G->reqs[size_t(pq[i])];
        if(matches(r, m))
        {
          if(i > 0) ++G->cnt.arrival_reorder;   // completion order != post order
          int rh = pq[i];
          pq.erase(pq.begin() + long(i));
          do_match(m, rh);
          return;
        }
      }
      ++G->cnt.unexpected;
      G->unexpected[{m->comm, m->dst}].push_back(m);
    }

    int new_req(Req::Kind k)
    {
      if(G->reqs.empty()) G->reqs.emplace_back(); // handle 0 = null
      Req r; r.kind = k; r.owner = wrank();
      G->reqs.push_back(r);
      return int(G->reqs.size()) - 1;
    }

    int isend(const void* buf, size_t bytes, int dest, int tag, MPI_Comm comm, const char* fn)
    {
      CommRec& c = comm_rec(comm, fn);
      int me = crank(c, fn);
      if(dest < 0 || dest >= int(c.ranks.size())) usage(std::string(fn) + ": invalid destination rank " + std::to_string(dest));
      int rh = new_req(Req::SEND);
      Msg* m = new Msg;
      m->comm = c.id; m->src = me; m->dst = dest; m->tag = tag; m->bytes = bytes; m->user_buf = buf;
      m->arrived = m->matched = false; m->send_req = rh; m->seq = ++G->msg_seq;
      m->rendezvous = (G->eager_limit >= 0 && (long long)bytes > G->eager_limit);
      if(m->rendezvous) { ++G->cnt.rendezvous; count_fault("RENDEZVOUS_SEND"); }
      else { m->payload.assign((const char*)buf, (const char*)buf + bytes); G->reqs[size_t(rh)].complete = true; }
      G->all_msgs.push_back(m);
      ++G->cnt.sends;
      uint64_t arr = now_ns() + 1 + draw_latency();
      uint64_t& last = G->last_arrival[std::make_tuple(c.id, me, dest)];
      if(arr <= last) arr = last + 1;           // non-overtaking between the same pair on one communicator
      last = arr;
      ev("isend", uint64_t(me) << 32 | uint64_t(uint32_t(dest)), uint64_t(tag), bytes);
      at(arr, [m]() { deliver(m); });
      hot();
      return rh;
    }

    int irecv(void* buf, size_t cap, int source, int tag, MPI_Comm comm, const char* fn)
    {
      CommRec& c = comm_rec(comm, fn);
      int me = crank(c, fn);
      if(source != MPI_ANY_SOURCE && (source < 0 || source >= int(c.ranks.size()))) usage(std::string(fn) + ": invalid source rank " + std::to_string(source));
      int rh = new_req(Req::RECV);
      Req& r = G->reqs[size_t(rh)];
      r.buf = buf; r.cap = cap; r.src = source; r.tag = tag; r.comm = c.id;
      ++G->cnt.recvs;
      ev("irecv", uint64_t(me), uint64_t(uint32_t(source)), uint64_t(uint32_t(tag)));
      auto& uq = G->unexpected[{c.id, me}];
      for(size_t i = 0; i < uq.size(); ++i)
        if(matches(r, uq[i]))
        {
          Msg* m = uq[i];
          uq.erase(uq.begin() + long(i));
          do_match(m, rh);
          return rh;
        }
      G->posted[{c.id, me}].push_back(rh);
      return rh;
    }

    bool req_done(int h)
    {
      Req& r = G->reqs[size_t(h)];
      if(r.kind == Req::COLL) return r.ready() && now_ns() >= r.ready_at;
      return r.complete;
    }

    void finalize_req(MPI_Request* h, MPI_Status* st)
    {
      Req& r = G->reqs[size_t(*h)];
      if(r.kind == Req::COLL)
      {
        if(!r.finished) { r.finish(); r.finished = true; --G->inflight_icoll; }
        if(st) { st->MPI_SOURCE = MPI_PROC_NULL; st->MPI_TAG = MPI_ANY_TAG; st->MPI_ERROR = MPI_SUCCESS; st->_bytes = 0; }
      }
      else if(r.kind == Req::RECV) { if(st) *st = r.st; }
      else if(st) { st->MPI_SOURCE = MPI_PROC_NULL; st->MPI_TAG = MPI_ANY_TAG; st->MPI_ERROR = MPI_SUCCESS; st->_bytes = 0; }
      r.ready = nullptr; r.finish = nullptr;
      r.kind = Req::NONE;
      *h = MPI_REQUEST_NULL;
    }

    void check_req(MPI_Request h, const char* fn)
    {
      if(h < 0 || h >= int(G->reqs.size()) || (h != 0 && G->reqs[size_t(h)].kind == Req::NONE))
        usage(std::string(fn) + ": invalid or already completed request handle " + std::to_string(h));
    }

    // ---------------------------------------------------------------------------------------------
    // collectives
    struct Entered { Slot* s; int me; CommRec* c; uint64_t seq; };

    Entered enter(MPI_Comm comm, int kind, int root, long long param, const void* data, size_t bytes, const char* fn)
    {
      CommRec& c = comm_rec(comm, fn);
      int me = crank(c, fn);
      uint64_t seq = c.coll_seq[size_t(me)]++;
      Slot& s = G->slots[{c.id, seq}];
      if(s.n == 0)
      {
        s.kind = kind; s.root = root; s.n = int(c.ranks.size()); s.param = param;
        s.arrived.assign(size_t(s.n), 0); s.left.assign(size_t(s.n), 0);
        s.contrib.resize(size_t(s.n)); s.aux.resize(size_t(s.n)); s.out_int.assign(size_t(s.n), 0); s.out_data.resize(size_t(s.n));
        // legal freedom, decided once per collective call by the first rank to arrive
        s.early = fault("COLL_EARLY_EXIT");
        s.assoc = 0;
        if((kind == K_REDUCE || kind == K_ALLREDUCE) && fault_enabled("REDUCE_ASSOC")) { s.assoc = int(decide(PICK, 4, "assoc")); if(s.assoc) count_fault("REDUCE_ASSOC"); }
        hot();
      }
      else
      {
        if(s.kind != kind)
          usage(std::string("collective mismatch on communicator ") + std::to_string(c.id) + " call #" + std::to_string(seq) + ": rank " + std::to_string(me) +
            " calls " + kind_name(kind) + " while another rank called " + kind_name(s.kind));
        if(s.root != root)
          usage(std::string("collective root mismatch in ") + kind_name(kind) + " on communicator " + std::to_string(c.id) + ": " + std::to_string(root) + " vs " + std::to_string(s.root));
        if(s.param != param && s.param >= 0 && param >= 0)
          usage(std::string("collective argument mismatch in ") + kind_name(kind) + " on communicator " + std::to_string(c.id) + " call #" + std::to_string(seq) + ": " +
            std::to_string(param) + " vs " + std::to_string(s.param));
      }
      s.arrived[size_t(me)] = 1; ++s.narr;
      if(data && bytes) s.contrib[size_t(me)].assign((const char*)data, (const char*)data + bytes);
      ++G->cnt.colls;
      ev("coll_enter", uint64_t(c.id), uint64_t(kind), seq);
      return Entered{&s, me, &c, seq};
    }

    bool slot_ready(const Slot* s, int me)
    {
      if(s->narr == s->n) return true;
      if(!s->early) return false;
      switch(s->kind)
      {
      case K_BCAST: case K_SCATTER: return me == s->root || s->arrived[size_t(s->root)];
      case K_GATHER: case K_REDUCE: return me != s->root;
      case K_SCAN: for(int i = 0; i <= me; ++i) if(!s->arrived[size_t(i)]) return false; return true;
      case K_EXSCAN: for(int i = 0; i < me; ++i) if(!s->arrived[size_t(i)]) return false; return true;
      default: return false;
      }
    }

    void leave(const Entered& e)
    {
      Slot* s = e.s;
      if(s->narr < s->n) ++G->cnt.early_exit, count_fault("COLL_EARLY_EXIT_TAKEN");
      s->left[size_t(e.me)] = 1;
      if(++s->nleft == s->n) G->slots.erase({e.c->id, e.seq});
    }

    void wait_slot(const Entered& e, const char* what)
    {
      const Slot* s = e.s; int me = e.me;
      if(!slot_ready(s, me))
      {
        std::function<bool()> ready = [s, me]() { return slot_ready(s, me); };
        block_until(ready, what);
      }
    }

    template<typename T_>
    void red_t(int op, void* acc, const void* in, size_t n)
    {
      T_* a = (T_*)acc; const T_* b = (const T_*)in;
      for(size_t i = 0; i < n; ++i)
      {
        switch(op)
        {
        case MPI_SUM: a[i] = T_(a[i] + b[i]); break;
        case MPI_MAX: if(a[i] < b[i]) a[i] = b[i]; break;
        case MPI_MIN: if(b[i] < a[i]) a[i] = b[i]; break;
        default: usage("unsupported reduction operation");
        }
      }
    }

    void red(int op, MPI_Datatype dt, void* acc, const void* in, size_t count)
    {
      switch(dt)
      {
      case MPI_CHAR: case MPI_SIGNED_CHAR: case MPI_INT8_T: red_t<signed char>(op, acc, in, count); break;
      case MPI_BYTE: case MPI_UNSIGNED_CHAR: case MPI_UINT8_T: red_t<unsigned char>(op, acc, in, count); break;
      case MPI_SHORT: case MPI_INT16_T: red_t<short>(op, acc, in, count); break;
      case MPI_UNSIGNED_SHORT: case MPI_UINT16_T: red_t<unsigned short>(op, acc, in, count); break;
      case MPI_INT: case MPI_INT32_T: red_t<int>(op, acc, in, count); break;
      case MPI_UNSIGNED: case MPI_UINT32_T: red_t<unsigned>(op, acc, in, count); break;
      case MPI_LONG: case MPI_LONG_LONG: case MPI_INT64_T: red_t<long long>(op, acc, in, count); break;
      case MPI_UNSIGNED_LONG: case MPI_UNSIGNED_LONG_LONG: case MPI_UINT64_T: red_t<unsigned long long>(op, acc, in, count); break;
      case MPI_FLOAT: red_t<float>(op, acc, in, count); break;
      case MPI_DOUBLE: red_t<double>(op, acc, in, count); break;
      case MPI_LONG_DOUBLE: red_t<long double>(op, acc, in, count); break;
      default: usage("reduction on unsupported datatype " + std::to_string(dt));
      }
    }

    // reduce contributions [lo,hi) of the slot in the association order chosen for this call; the
    // result of an Allreduce is computed once and handed to every rank (identical bits everywhere)
    std::vector<char> reduce_range(const Slot* s, int lo, int hi, int op, MPI_Datatype dt, size_t count, int assoc)
    {
      std::vector<int> order;
      for(int i = lo; i < hi; ++i) order.push_back(i);
      int n = int(order.size());
      if(n == 0) return std::vector<char>();
      if(assoc == 1) std::reverse(order.begin(), order.end());
      else if(assoc == 3 && n > 1) std::rotate(order.begin(), order.begin() + n / 2, order.end());
      if(assoc == 2 && n > 2)
      {
        // pairwise tree
        std::vector<std::vector<char>> lvl;
        for(int i : order) lvl.push_back(s->contrib[size_t(i)]);
        while(lvl.size() > 1)
        {
          std::vector<std::vector<char>> nx;
          for(size_t i = 0; i + 1 < lvl.size(); i += 2) { red(op, dt, lvl[i].data(), lvl[i + 1].data(), count); nx.push_back(lvl[i]); }
          if(lvl.size() % 2) nx.push_back(lvl.back());
          lvl.swap(nx);
        }
        return lvl[0];
      }
      std::vector<char> acc = s->contrib[size_t(order[0])];
      for(int k = 1; k < n; ++k) red(op, dt, acc.data(), s->contrib[size_t(order[size_t(k)])].data(), count);
      return acc;
    }

    // generic driver: blocking (req == nullptr) or nonblocking
    int run_coll(const Entered& e, std::function<void()> finish, MPI_Request* req, const char* what)
    {
      if(req == nullptr)
      {
        wait_slot(e, what);
        finish();
        leave(e);
        return MPI_SUCCESS;
      }
      int rh = new_req(Req::COLL);
      Req& r = G->reqs[size_t(rh)];
      const Slot* s = e.s; int me = e.me;
      r.ready = [s, me]() { return slot_ready(s, me); };
      Entered ec = e;
      r.finish = [finish, ec]() { finish(); leave(ec); };
      // completion order of several outstanding nonblocking collectives is free: a seeded completion delay
      uint64_t d = 0;
      if(fault_enabled("ICOLL_DELAY")) { static const uint64_t b[3] = {0, 5000, 200000}; uint32_t k = decide(DELAY, 3, "icoll"); d = b[k]; if(k) count_fault("ICOLL_DELAY"); }
      r.ready_at = now_ns() + d;
      if(d) at(r.ready_at, []() {});
      ++G->cnt.icolls;
      ++G->inflight_icoll;
      if(uint64_t(G->inflight_icoll) > G->cnt.max_inflight_icoll) G->cnt.max_inflight_icoll = uint64_t(G->inflight_icoll);
      *req = rh;
      return MPI_SUCCESS;
    }

    void entry(const char* fn)
    {
      if(G && sim::active()) sim::yield(fn);
    }
  } // anon

  // -------------------------------------------------------------------------------------------------
  std::map<std::string, std::shared_ptr<File>>& fs() { return g_fs; }
  void fs_clear() { g_fs.clear(); }
  const Counters& counters() { return G ? G->cnt : g_last_counters; }
  int world_size() { return G ? G->n : 1; }
  int my_rank() { return wrank(); }

  void world_begin(int n, std::function<void(int)> body)
  {
    delete G;
    G = new World;
    G->n = n;
    G->comms.emplace_back();                 // 0 = null
    std::vector<int> all;
    for(int i = 0; i < n; ++i) all.push_back(i);
    new_comm(all);                           // 1 = world
    G->comms.emplace_back();                 // 2 = self (placeholder, never used for traffic)
    G->comms.back().id = 2; G->comms.back().freed = true;
    G->reqs.emplace_back();
    G->groups.emplace_back();
    G->files.emplace_back();
    // transport knobs: drawn once per world; the k-th world of a run uses the cfg prefix "w<k>." (k >= 2)
    static uint64_t last_serial = 0; static int world_no = 0;
    if(last_serial != sim::run_serial()) { last_serial = sim::run_serial(); world_no = 0; }
    ++world_no;
    const std::string pre = world_no > 1 ? "w" + std::to_string(world_no) + "." : "";
    static const long long limits[4] = {-1, 0, 64, 4096};
    G->eager_limit = limits[sim::cfg_weighted((pre + "eager_idx").c_str(), {4, 2, 2, 2})];
    G->lat_mode = int(sim::cfg_int((pre + "lat_mode").c_str(), 0, 2));
    if(world_no == 1)
    {
      sim::fault_setup("MSG_DELAY", {1000});
      sim::fault_setup("COLL_EARLY_EXIT", {100, 500, 1000});
      sim::fault_setup("REDUCE_ASSOC", {1000});
      sim::fault_setup("ICOLL_DELAY", {1000});
      sim::fault_setup("TEST_NOT_READY", {100, 400});
      sim::fault_setup("WAITANY_PICK", {1000});
    }
    G->task_of_rank.assign(size_t(n), -1);
    for(int r = 0; r < n; ++r)
    {
      int t = sim::spawn("rank" + std::to_string(r), [r, body]() { body(r); });
      G->task_of_rank[size_t(r)] = t;
      G->rank_of_task[t] = r;
    }
  }

  void world_end()
  {
    if(!G) return;
    g_last_counters = G->cnt;
    sim::probe("mpi_sends", G->cnt.sends);
    sim::probe("mpi_collectives", G->cnt.colls);
    sim::probe("mpi_icollectives", G->cnt.icolls);
    sim::probe("waitany_with_real_choice", G->cnt.waitany_choice);
    sim::probe("waitany_not_first", G->cnt.waitany_not_first);
    sim::probe("completion_order_ne_post_order", G->cnt.arrival_reorder);
    sim::probe("rendezvous_sends", G->cnt.rendezvous);
    sim::probe("rendezvous_send_blocked_until_recv_posted", G->cnt.rendezvous_blocked);
    sim::probe("collective_early_exits", G->cnt.early_exit);
    if(G->cnt.max_inflight_icoll >= 2) sim::probe("two_nonblocking_collectives_in_flight");
    sim::probe("unexpected_messages", G->cnt.unexpected);
    sim::probe("mpi_file_ops", G->cnt.file_ops);
    sim::probe("communicators_created", G->cnt.comm_created);
    uint64_t unmatched = 0;
    for(Msg* m : G->all_msgs) { if(!m->matched) ++unmatched; delete m; }
    sim::probe("messages_never_received", unmatched);
    delete G;
    G = nullptr;
  }

  int rank_of_task_for_race(int task) { return rank_of(task); }
}

using namespace simmpi;

// ===================================================================================================
extern "C"
{
  int MPI_Init(int*, char***) { g_initialized = true; return MPI_SUCCESS; }
  int MPI_Init_thread(int*, char***, int required, int* provided) { g_initialized = true; *provided = required; return MPI_SUCCESS; }
  int MPI_Initialized(int* f) { *f = g_initialized ? 1 : 0; return MPI_SUCCESS; }
  int MPI_Finalize(void) { g_finalized = true; return MPI_SUCCESS; }
  int MPI_Finalized(int* f) { *f = g_finalized ? 1 : 0; return MPI_SUCCESS; }
  int MPI_Abort(MPI_Comm, int code)
  {
    if(G && sim::task_tls()) fail("ABORT", "MPI_Abort(" + std::to_string(code) + ") called by rank " + std::to_string(wrank()) + " (failed assertion / Runtime::abort: see stderr)");
    abort();
  }
  double MPI_Wtime(void)
  {
    if(!G || !sim::active()) return 0.0;
    sim::yield("MPI_Wtime");
    return double(sim::wall_ns()) * 1e-9;
  }

  int MPI_Comm_rank(MPI_Comm c, int* r)
  {
    if(!G || c == MPI_COMM_SELF) { *r = 0; return MPI_SUCCESS; }
    if(c == MPI_COMM_WORLD) { *r = wrank(); return MPI_SUCCESS; }
    CommRec& cr = comm_rec(c, "MPI_Comm_rank");
    *r = crank(cr, "MPI_Comm_rank");
    return MPI_SUCCESS;
  }
  int MPI_Comm_size(MPI_Comm c, int* s)
  {
    if(!G || c == MPI_COMM_SELF) { *s = 1; return MPI_SUCCESS; }
    *s = int(comm_rec(c, "MPI_Comm_size").ranks.size());
    return MPI_SUCCESS;
  }

  int MPI_Comm_group(MPI_Comm c, MPI_Group* g)
  {
    CommRec& cr = comm_rec(c, "MPI_Comm_group");
    G->groups.push_back(cr.ranks);
    *g = int(G->groups.size()) - 1;
    return MPI_SUCCESS;
  }
  int MPI_Group_incl(MPI_Group g, int n, const int* ranks, MPI_Group* ng)
  {
    if(g <= 0 || g >= int(G->groups.size())) usage("MPI_Group_incl: invalid group");
    std::vector<int> base = G->groups[size_t(g)], out;
    for(int i = 0; i < n; ++i)
    {
      if(ranks[i] < 0 || ranks[i] >= int(base.size())) usage("MPI_Group_incl: rank " + std::to_string(ranks[i]) + " out of range");
      if(std::find(out.begin(), out.end(), base[size_t(ranks[i])]) != out.end()) usage("MPI_Group_incl: duplicate rank");
      out.push_back(base[size_t(ranks[i])]);
    }
    G->groups.push_back(out);
    *ng = int(G->groups.size()) - 1;
    return MPI_SUCCESS;
  }
  int MPI_Group_range_incl(MPI_Group g, int n, int ranges[][3], MPI_Group* ng)
  {
    if(g <= 0 || g >= int(G->groups.size())) usage("MPI_Group_range_incl: invalid group");
    std::vector<int> base = G->groups[size_t(g)], out;
    for(int i = 0; i < n; ++i)
    {
      int first = ranges[i][0], last = ranges[i][1], stride = ranges[i][2];
      if(stride == 0) usage("MPI_Group_range_incl: zero stride");
      for(int r = first; stride > 0 ? r <= last : r >= last; r += stride)
      {
        if(r < 0 || r >= int(base.size())) usage("MPI_Group_range_incl: rank " + std::to_string(r) + " out of range");
        out.push_back(base[size_t(r)]);
      }
    }
    G->groups.push_back(out);
    *ng = int(G->groups.size()) - 1;
    return MPI_SUCCESS;
  }
  int MPI_Group_free(MPI_Group* g) { *g = MPI_GROUP_NULL; return MPI_SUCCESS; }

  int MPI_Comm_dup(MPI_Comm c, MPI_Comm* nc)
  {
    entry("MPI_Comm_dup");
    Entered e = enter(c, K_COMM_DUP, -1, -1, nullptr, 0, "MPI_Comm_dup");
    e.s->early = false;
    wait_slot(e, "MPI_Comm_dup");
    if(!e.s->result_ready) { e.s->result_ready = true; int id = new_comm(e.c->ranks); e.s->out_int.assign(size_t(e.s->n), id); e.c = &G->comms[size_t(c)]; }
    *nc = e.s->out_int[size_t(e.me)];
    leave(e);
    return MPI_SUCCESS;
  }

  int MPI_Comm_create(MPI_Comm c, MPI_Group g, MPI_Comm* nc)
  {
    entry("MPI_Comm_create");
    // MPI-2.2: ranks may pass different, disjoint groups; one communicator per distinct group
    std::vector<int> grp;
    if(g != MPI_GROUP_NULL) { if(g <= 0 || g >= int(G->groups.size())) usage("MPI_Comm_create: invalid group"); grp = G->groups[size_t(g)]; }
    Entered e = enter(c, K_COMM_CREATE, -1, -1, nullptr, 0, "MPI_Comm_create");
    e.s->early = false;
    e.s->aux[size_t(e.me)] = grp;
    wait_slot(e, "MPI_Comm_create");
    if(!e.s->result_ready)
    {
      e.s->result_ready = true;
      std::vector<int> parent = e.c->ranks;
      std::vector<std::vector<int>> auxs = e.s->aux;
      std::vector<int> outs(size_t(e.s->n), MPI_COMM_NULL);
      std::map<std::vector<int>, int> made;
      for(int r = 0; r < int(parent.size()); ++r)
      {
        const std::vector<int>& gr = auxs[size_t(r)];
        if(gr.empty()) continue;
        if(std::find(gr.begin(), gr.end(), parent[size_t(r)]) == gr.end()) continue; // rank not in the group it passed: MPI_COMM_NULL
        auto it = made.find(gr);
        int id;
        if(it == made.end())
        {
          // every member must have passed the same group
          for(int w : gr)
          {
            size_t pr = size_t(std::find(parent.begin(), parent.end(), w) - parent.begin());
            if(pr >= parent.size()) usage("MPI_Comm_create: group member not in the parent communicator");
            if(auxs[pr] != gr) usage("MPI_Comm_create: ranks " + std::to_string(parent[size_t(r)]) + " and " + std::to_string(w) + " passed overlapping but different groups");
          }
          id = new_comm(gr);
          made[gr] = id;
        }
        else id = it->second;
        outs[size_t(r)] = id;
      }
      Slot& s2 = G->slots[{c, e.seq}];
      s2.out_int = outs;
      e.s = &s2; e.c = &G->comms[size_t(c)];
    }
    *nc = e.s->out_int[size_t(e.me)];
    leave(e);
    return MPI_SUCCESS;
  }

  int MPI_Comm_split(MPI_Comm c, int color, int key, MPI_Comm* nc)
  {
    entry("MPI_Comm_split");
    Entered e = enter(c, K_COMM_SPLIT, -1, -1, nullptr, 0, "MPI_Comm_split");
    e.s->early = false;
    e.s->aux[size_t(e.me)] = {color, key};
    wait_slot(e, "MPI_Comm_split");
    if(!e.s->result_ready)
    {
      e.s->result_ready = true;
      std::vector<int> parent = e.c->ranks;
      std::vector<std::vector<int>> auxs = e.s->aux;
      std::vector<int> outs(size_t(e.s->n), MPI_COMM_NULL);
      std::map<int, std::vector<std::pair<std::pair<int, int>, int>>> by_color;
      for(int r = 0; r < int(parent.size()); ++r)
        if(auxs[size_t(r)][0] != MPI_UNDEFINED) by_color[auxs[size_t(r)][0]].push_back({{auxs[size_t(r)][1], r}, r});
      for(auto& kv : by_color)
      {
        std::sort(kv.second.begin(), kv.second.end());
        std::vector<int> ranks;
        for(auto& x : kv.second) ranks.push_back(parent[size_t(x.second)]);
        int id = new_comm(ranks);
        for(auto& x : kv.second) outs[size_t(x.second)] = id;
      }
      Slot& s2 = G->slots[{c, e.seq}];
      s2.out_int = outs;
      e.s = &s2; e.c = &G->comms[size_t(c)];
    }
    *nc = e.s->out_int[size_t(e.me)];
    leave(e);
    return MPI_SUCCESS;
  }

  int MPI_Comm_free(MPI_Comm* c)
  {
    if(G && *c > 2 && *c < int(G->comms.size()))
    {
      CommRec& cr = G->comms[size_t(*c)];
      if(--cr.refs <= 0) { /* keep the record (handles are never reused), traffic on it is over */ }
    }
    *c = MPI_COMM_NULL;
    return MPI_SUCCESS;
  }

  // ---- point-to-point ------------------------------------------------------------------------
  int MPI_Isend(const void* buf, int count, MPI_Datatype dt, int dest, int tag, MPI_Comm comm, MPI_Request* req)
  {
    entry("MPI_Isend");
    *req = isend(buf, size_t(count) * dt_size(dt), dest, tag, comm, "MPI_Isend");
    return MPI_SUCCESS;
  }
  int MPI_Irecv(void* buf, int count, MPI_Datatype dt, int source, int tag, MPI_Comm comm, MPI_Request* req)
  {
    entry("MPI_Irecv");
    *req = irecv(buf, size_t(count) * dt_size(dt), source, tag, comm, "MPI_Irecv");
    return MPI_SUCCESS;
  }
  int MPI_Wait(MPI_Request* req, MPI_Status* st)
  {
    entry("MPI_Wait");
    if(*req == MPI_REQUEST_NULL) { if(st) { st->MPI_SOURCE = MPI_PROC_NULL; st->MPI_TAG = MPI_ANY_TAG; st->MPI_ERROR = 0; st->_bytes = 0; } return MPI_SUCCESS; }
    check_req(*req, "MPI_Wait");
    int h = *req;
    if(!req_done(h))
    {
      if(G->reqs[size_t(h)].kind == Req::SEND) ++G->cnt.rendezvous_blocked;
      std::function<bool()> ready = [h]() { return req_done(h); };
      block_until(ready, G->reqs[size_t(h)].kind == Req::SEND ? "MPI_Wait(send, rendezvous)" : G->reqs[size_t(h)].kind == Req::RECV ? "MPI_Wait(recv)" : "MPI_Wait(nonblocking collective)");
    }
    finalize_req(req, st);
    return MPI_SUCCESS;
  }
  int MPI_Send(const void* buf, int count, MPI_Datatype dt, int dest, int tag, MPI_Comm comm)
  {
    entry("MPI_Send");
    MPI_Request r = isend(buf, size_t(count) * dt_size(dt), dest, tag, comm, "MPI_Send");
    return MPI_Wait(&r, MPI_STATUS_IGNORE);
  }
  int MPI_Recv(void* buf, int count, MPI_Datatype dt, int source, int tag, MPI_Comm comm, MPI_Status* st)
  {
    entry("MPI_Recv");
    MPI_Request r = irecv(buf, size_t(count) * dt_size(dt), source, tag, comm, "MPI_Recv");
    return MPI_Wait(&r, st);
  }

  int MPI_Waitany(int n, MPI_Request* reqs, int* idx, MPI_Status* st)
  {
    entry("MPI_Waitany");
    std::vector<int> act;
    for(int i = 0; i < n; ++i) if(reqs[i] != MPI_REQUEST_NULL) { check_req(reqs[i], "MPI_Waitany"); act.push_back(i); }
    if(act.empty()) { *idx = MPI_UNDEFINED; return MPI_SUCCESS; }
    auto any = [reqs, act]() { for(int i : act) if(req_done(reqs[i])) return true; return false; };
    if(!any())
    {
      std::function<bool()> ready = any;
      block_until(ready, "MPI_Waitany");
    }
    std::vector<int> done;
    for(int i : act) if(req_done(reqs[i])) done.push_back(i);
    uint32_t k = 0;
    if(done.size() > 1)
    {
      ++G->cnt.waitany_choice;
      if(fault_enabled("WAITANY_PICK")) k = decide(PICK, uint32_t(done.size()), "waitany");
      if(k) { ++G->cnt.waitany_not_first; count_fault("WAITANY_PICK"); }
    }
    *idx = done[k];
    finalize_req(&reqs[done[k]], st);
    return MPI_SUCCESS;
  }

  int MPI_Waitall(int n, MPI_Request* reqs, MPI_Status* sts)
  {
    entry("MPI_Waitall");
    for(int i = 0; i < n; ++i) if(reqs[i] != MPI_REQUEST_NULL) check_req(reqs[i], "MPI_Waitall");
    auto all = [reqs, n]() { for(int i = 0; i < n; ++i) if(reqs[i] != MPI_REQUEST_NULL && !req_done(reqs[i])) return false; return true; };
    if(!all())
    {
      for(int i = 0; i < n; ++i) if(reqs[i] != MPI_REQUEST_NULL && G->reqs[size_t(reqs[i])].kind == Req::SEND && !req_done(reqs[i])) { ++G->cnt.rendezvous_blocked; break; }
      std::function<bool()> ready = all;
      block_until(ready, "MPI_Waitall");
    }
    for(int i = 0; i < n; ++i)
    {
      MPI_Status* s = sts ? &sts[i] : nullptr;
      if(reqs[i] != MPI_REQUEST_NULL) finalize_req(&reqs[i], s);
      else if(s) { s->MPI_SOURCE = MPI_PROC_NULL; s->MPI_TAG = MPI_ANY_TAG; s->MPI_ERROR = 0; s->_bytes = 0; }
    }
    return MPI_SUCCESS;
  }

  static bool test_ready_fault()
  {
    // MPI progress rule: a matched operation completes eventually, a single Test may still say "not yet"
    if(fault("TEST_NOT_READY")) { ++G->cnt.test_not_ready; return true; }
    return false;
  }

  int MPI_Test(MPI_Request* req, int* flag, MPI_Status* st)
  {
    entry("MPI_Test");
    if(*req == MPI_REQUEST_NULL) { *flag = 1; if(st) { st->MPI_SOURCE = MPI_PROC_NULL; st->MPI_TAG = MPI_ANY_TAG; st->MPI_ERROR = 0; st->_bytes = 0; } return MPI_SUCCESS; }
    check_req(*req, "MPI_Test");
    if(req_done(*req) && !test_ready_fault()) { *flag = 1; finalize_req(req, st); return MPI_SUCCESS; }
    *flag = 0;
    sim::sleep_ns(3000);   // polling loops must not starve the peers under a run-to-block schedule
    return MPI_SUCCESS;
  }
  int MPI_Testany(int n, MPI_Request* reqs, int* idx, int* flag, MPI_Status* st)
  {
    entry("MPI_Testany");
    std::vector<int> done; bool any_active = false;
    for(int i = 0; i < n; ++i) if(reqs[i] != MPI_REQUEST_NULL) { check_req(reqs[i], "MPI_Testany"); any_active = true; if(req_done(reqs[i])) done.push_back(i); }
    if(!any_active) { *flag = 1; *idx = MPI_UNDEFINED; return MPI_SUCCESS; }
    if(done.empty() || test_ready_fault()) { *flag = 0; *idx = MPI_UNDEFINED; sim::sleep_ns(3000); return MPI_SUCCESS; }
    uint32_t k = 0;
    if(done.size() > 1 && fault_enabled("WAITANY_PICK")) k = decide(PICK, uint32_t(done.size()), "testany");
    *flag = 1; *idx = done[k];
    finalize_req(&reqs[done[k]], st);
    return MPI_SUCCESS;
  }
  int MPI_Testall(int n, MPI_Request* reqs, int* flag, MPI_Status* sts)
  {
    entry("MPI_Testall");
    bool all = true;
    for(int i = 0; i < n; ++i) if(reqs[i] != MPI_REQUEST_NULL) { check_req(reqs[i], "MPI_Testall"); if(!req_done(reqs[i])) all = false; }
    if(!all || (n > 0 && test_ready_fault())) { *flag = 0; sim::sleep_ns(3000); return MPI_SUCCESS; }
    *flag = 1;
    for(int i = 0; i < n; ++i) if(reqs[i] != MPI_REQUEST_NULL) finalize_req(&reqs[i], sts ? &sts[i] : nullptr);
    return MPI_SUCCESS;
  }
  int MPI_Request_free(MPI_Request* req)
  {
    if(*req != MPI_REQUEST_NULL && G) { check_req(*req, "MPI_Request_free"); }
    *req = MPI_REQUEST_NULL;
    return MPI_SUCCESS;
  }
  int MPI_Cancel(MPI_Request* req)
  {
    // a posted receive that has not been matched is withdrawn; anything else completes normally
    if(!G || *req == MPI_REQUEST_NULL) return MPI_SUCCESS;
    check_req(*req, "MPI_Cancel");
    Req& r = G->reqs[size_t(*req)];
    if(r.kind == Req::RECV && !r.complete)
    {
      for(auto& kv : G->posted)
        for(size_t i = 0; i < kv.second.size(); ++i) if(kv.second[i] == *req) { kv.second.erase(kv.second.begin() + long(i)); break; }
      r.complete = true;
      r.st.MPI_SOURCE = MPI_PROC_NULL; r.st._bytes = 0;
    }
    return MPI_SUCCESS;
  }
  int MPI_Get_count(const MPI_Status* st, MPI_Datatype dt, int* count)
  {
    size_t sz = dt_size(dt);
    *count = (st->_bytes % int(sz) == 0) ? st->_bytes / int(sz) : MPI_UNDEFINED;
    return MPI_SUCCESS;
  }

  // ---- collectives ---------------------------------------------------------------------------
  static int coll_barrier(MPI_Comm c, MPI_Request* req, const char* fn)
  {
    entry(fn);
    Entered e = enter(c, K_BARRIER, -1, -1, nullptr, 0, fn);
    e.s->early = false;
    return run_coll(e, []() {}, req, fn);
  }
  int MPI_Barrier(MPI_Comm c) { return coll_barrier(c, nullptr, "MPI_Barrier"); }
  int MPI_Ibarrier(MPI_Comm c, MPI_Request* r) { return coll_barrier(c, r, "MPI_Ibarrier"); }

  static int coll_bcast(void* buf, int count, MPI_Datatype dt, int root, MPI_Comm c, MPI_Request* req, const char* fn)
  {
    entry(fn);
    size_t bytes = size_t(count) * dt_size(dt);
    CommRec& cr = comm_rec(c, fn);
    int me = crank(cr, fn);
    if(root < 0 || root >= int(cr.ranks.size())) usage(std::string(fn) + ": invalid root");
    Entered e = enter(c, K_BCAST, root, (long long)bytes, me == root ? buf : nullptr, me == root ? bytes : 0, fn);
    const Slot* s = e.s;
    return run_coll(e, [s, me, root, buf, bytes]() { if(me != root && bytes) memcpy(buf, s->contrib[size_t(root)].data(), bytes); }, req, fn);
  }
  int MPI_Bcast(void* b, int n, MPI_Datatype dt, int root, MPI_Comm c) { return coll_bcast(b, n, dt, root, c, nullptr, "MPI_Bcast"); }
  int MPI_Ibcast(void* b, int n, MPI_Datatype dt, int root, MPI_Comm c, MPI_Request* r) { return coll_bcast(b, n, dt, root, c, r, "MPI_Ibcast"); }

  static int coll_gather(const void* sb, int sc, MPI_Datatype sdt, void* rb, int rc, MPI_Datatype rdt, int root, MPI_Comm c, MPI_Request* req, const char* fn)
  {
    entry(fn);
    CommRec& cr = comm_rec(c, fn);
    int me = crank(cr, fn);
    size_t rbytes = size_t(rc) * dt_size(rdt);
    size_t sbytes = (sb == MPI_IN_PLACE) ? rbytes : size_t(sc) * dt_size(sdt);
    const void* src = (sb == MPI_IN_PLACE) ? (const void*)((char*)rb + size_t(me) * rbytes) : sb;
    Entered e = enter(c, K_GATHER, root, (long long)sbytes, src, sbytes, fn);
    const Slot* s = e.s; int n = e.s->n;
    bool inplace = (sb == MPI_IN_PLACE);
    return run_coll(e, [s, me, root, rb, rbytes, n, inplace]() {
      if(me != root) return;
      for(int i = 0; i < n; ++i)
      {
        if(i == me && inplace) continue;
        if(s->contrib[size_t(i)].size() != rbytes) usage("MPI_Gather: send size of rank " + std::to_string(i) + " differs from the root's receive size");
        if(rbytes) memcpy((char*)rb + size_t(i) * rbytes, s->contrib[size_t(i)].data(), rbytes);
      }
    }, req, fn);
  }
  int MPI_Gather(const void* sb, int sc, MPI_Datatype sdt, void* rb, int rc, MPI_Datatype rdt, int root, MPI_Comm c) { return coll_gather(sb, sc, sdt, rb, rc, rdt, root, c, nullptr, "MPI_Gather"); }
  int MPI_Igather(const void* sb, int sc, MPI_Datatype sdt, void* rb, int rc, MPI_Datatype rdt, int root, MPI_Comm c, MPI_Request* r) { return coll_gather(sb, sc, sdt, rb, rc, rdt, root, c, r, "MPI_Igather"); }

  static int coll_scatter(const void* sb, int sc, MPI_Datatype sdt, void* rb, int rc, MPI_Datatype rdt, int root, MPI_Comm c, MPI_Request* req, const char* fn)
  {
    entry(fn);
    CommRec& cr = comm_rec(c, fn);
    int me = crank(cr, fn);
    int n = int(cr.ranks.size());
    size_t sbytes = size_t(sc) * dt_size(sdt);
    bool inplace = (rb == MPI_IN_PLACE);
    size_t rbytes = inplace ? sbytes : size_t(rc) * dt_size(rdt);
    Entered e = enter(c, K_SCATTER, root, -1, me == root ? sb : nullptr, me == root ? sbytes * size_t(n) : 0, fn);
    const Slot* s = e.s;
    return run_coll(e, [s, me, root, rb, rbytes, inplace]() {
      if(inplace && me == root) return;
      if(s->contrib[size_t(root)].size() < (size_t(me) + 1) * rbytes) usage("MPI_Scatter: receive size larger than what the root sends");
      if(rbytes) memcpy(rb, s->contrib[size_t(root)].data() + size_t(me) * rbytes, rbytes);
    }, req, fn);
  }
  int MPI_Scatter(const void* sb, int sc, MPI_Datatype sdt, void* rb, int rc, MPI_Datatype rdt, int root, MPI_Comm c) { return coll_scatter(sb, sc, sdt, rb, rc, rdt, root, c, nullptr, "MPI_Scatter"); }
  int MPI_Iscatter(const void* sb, int sc, MPI_Datatype sdt, void* rb, int rc, MPI_Datatype rdt, int root, MPI_Comm c, MPI_Request* r) { return coll_scatter(sb, sc, sdt, rb, rc, rdt, root, c, r, "MPI_Iscatter"); }

  static int coll_allgather(const void* sb, int sc, MPI_Datatype sdt, void* rb, int rc, MPI_Datatype rdt, MPI_Comm c, MPI_Request* req, const char* fn)
  {
    entry(fn);
    CommRec& cr = comm_rec(c, fn);
    int me = crank(cr, fn);
    size_t rbytes = size_t(rc) * dt_size(rdt);
    bool inplace = (sb == MPI_IN_PLACE);
    size_t sbytes = inplace ? rbytes : size_t(sc) * dt_size(sdt);
    const void* src = inplace ? (const void*)((char*)rb + size_t(me) * rbytes) : sb;
    Entered e = enter(c, K_ALLGATHER, -1, (long long)sbytes, src, sbytes, fn);
    const Slot* s = e.s; int n = e.s->n;
    return run_coll(e, [s, rb, rbytes, n]() {
      for(int i = 0; i < n; ++i)
      {
        if(s->contrib[size_t(i)].size() != rbytes) usage("MPI_Allgather: inconsistent sizes");
        if(rbytes) memcpy((char*)rb + size_t(i) * rbytes, s->contrib[size_t(i)].data(), rbytes);
      }
    }, req, fn);
  }
  int MPI_Allgather(const void* sb, int sc, MPI_Datatype sdt, void* rb, int rc, MPI_Datatype rdt, MPI_Comm c) { return coll_allgather(sb, sc, sdt, rb, rc, rdt, c, nullptr, "MPI_Allgather"); }
  int MPI_Iallgather(const void* sb, int sc, MPI_Datatype sdt, void* rb, int rc, MPI_Datatype rdt, MPI_Comm c, MPI_Request* r) { return coll_allgather(sb, sc, sdt, rb, rc, rdt, c, r, "MPI_Iallgather"); }

  int MPI_Allgatherv(const void* sb, int sc, MPI_Datatype sdt, void* rb, const int* rcs, const int* displs, MPI_Datatype rdt, MPI_Comm c)
  {
    entry("MPI_Allgatherv");
    CommRec& cr = comm_rec(c, "MPI_Allgatherv");
    int me = crank(cr, "MPI_Allgatherv");
    size_t rsz = dt_size(rdt);
    bool inplace = (sb == MPI_IN_PLACE);
    size_t sbytes = inplace ? size_t(rcs[me]) * rsz : size_t(sc) * dt_size(sdt);
    const void* src = inplace ? (const void*)((char*)rb + size_t(displs[me]) * rsz) : sb;
    Entered e = enter(c, K_ALLGATHERV, -1, -1, src, sbytes, "MPI_Allgatherv");
    const Slot* s = e.s; int n = e.s->n;
    return run_coll(e, [s, rb, rcs, displs, rsz, n]() {
      for(int i = 0; i < n; ++i)
      {
        if(s->contrib[size_t(i)].size() != size_t(rcs[i]) * rsz) usage("MPI_Allgatherv: recvcounts[" + std::to_string(i) + "] does not match what rank " + std::to_string(i) + " sends");
        if(rcs[i]) memcpy((char*)rb + size_t(displs[i]) * rsz, s->contrib[size_t(i)].data(), size_t(rcs[i]) * rsz);
      }
    }, nullptr, "MPI_Allgatherv");
  }

  static int coll_alltoall(const void* sb, int sc, MPI_Datatype sdt, void* rb, int rc, MPI_Datatype rdt, MPI_Comm c, MPI_Request* req, const char* fn)
  {
    entry(fn);
    CommRec& cr = comm_rec(c, fn);
    int me = crank(cr, fn);
    int n = int(cr.ranks.size());
    size_t rbytes = size_t(rc) * dt_size(rdt);
    bool inplace = (sb == MPI_IN_PLACE);
    size_t sbytes = inplace ? rbytes : size_t(sc) * dt_size(sdt);
    Entered e = enter(c, K_ALLTOALL, -1, (long long)sbytes, inplace ? rb : sb, sbytes * size_t(n), fn);
    const Slot* s = e.s;
    return run_coll(e, [s, me, rb, rbytes, n]() {
      for(int i = 0; i < n; ++i)
        if(rbytes) memcpy((char*)rb + size_t(i) * rbytes, s->contrib[size_t(i)].data() + size_t(me) * rbytes, rbytes);
    }, req, fn);
  }
  int MPI_Alltoall(const void* sb, int sc, MPI_Datatype sdt, void* rb, int rc, MPI_Datatype rdt, MPI_Comm c) { return coll_alltoall(sb, sc, sdt, rb, rc, rdt, c, nullptr, "MPI_Alltoall"); }
  int MPI_Ialltoall(const void* sb, int sc, MPI_Datatype sdt, void* rb, int rc, MPI_Datatype rdt, MPI_Comm c, MPI_Request* r) { return coll_alltoall(sb, sc, sdt, rb, rc, rdt, c, r, "MPI_Ialltoall"); }

  int MPI_Alltoallv(const void* sb, const int* scs, const int* sdis, MPI_Datatype sdt, void* rb, const int* rcs, const int* rdis, MPI_Datatype rdt, MPI_Comm c)
  {
    entry("MPI_Alltoallv");
    CommRec& cr = comm_rec(c, "MPI_Alltoallv");
    int me = crank(cr, "MPI_Alltoallv");
    int n = int(cr.ranks.size());
    size_t rsz = dt_size(rdt);
    bool inplace = (sb == MPI_IN_PLACE);
    size_t ssz = inplace ? rsz : dt_size(sdt);
    const int* cnts = inplace ? rcs : scs; const int* dis = inplace ? rdis : sdis;
    const char* base = inplace ? (const char*)rb : (const char*)sb;
    // pack: for every destination j the bytes destined to j, prefixed by an offset table in aux
    std::vector<char> pack; std::vector<int> offs;
    for(int j = 0; j < n; ++j) { offs.push_back(int(pack.size())); pack.insert(pack.end(), base + size_t(dis[j]) * ssz, base + size_t(dis[j]) * ssz + size_t(cnts[j]) * ssz); }
    offs.push_back(int(pack.size()));
    Entered e = enter(c, K_ALLTOALLV, -1, -1, pack.data(), pack.size(), "MPI_Alltoallv");
    e.s->aux[size_t(me)] = offs;
    const Slot* s = e.s;
    return run_coll(e, [s, me, rb, rcs, rdis, rsz, n]() {
      for(int i = 0; i < n; ++i)
      {
        int b = s->aux[size_t(i)][size_t(me)], en = s->aux[size_t(i)][size_t(me) + 1];
        if(size_t(en - b) != size_t(rcs[i]) * rsz) usage("MPI_Alltoallv: recvcounts[" + std::to_string(i) + "] does not match the matching sendcount");
        if(en > b) memcpy((char*)rb + size_t(rdis[i]) * rsz, s->contrib[size_t(i)].data() + b, size_t(en - b));
      }
    }, nullptr, "MPI_Alltoallv");
  }

  static int coll_reduce(const void* sb, void* rb, int count, MPI_Datatype dt, MPI_Op op, int root, bool all, MPI_Comm c, MPI_Request* req, const char* fn)
  {
    entry(fn);
    CommRec& cr = comm_rec(c, fn);
    int me = crank(cr, fn);
    size_t bytes = size_t(count) * dt_size(dt);
    const void* src = (sb == MPI_IN_PLACE) ? rb : sb;
    Entered e = enter(c, all ? K_ALLREDUCE : K_REDUCE, all ? -1 : root, (long long)bytes * 64 + dt + op * 32, src, bytes, fn);
    Slot* s = e.s; int n = e.s->n;
    return run_coll(e, [s, me, root, all, rb, bytes, count, dt, op, n]() {
      if(!all && me != root) return;
      if(!s->result_ready) { s->result = reduce_range(s, 0, n, op, dt, size_t(count), s->assoc); s->result_ready = true; }
      if(bytes) memcpy(rb, s->result.data(), bytes);
    }, req, fn);
  }
  int MPI_Reduce(const void* sb, void* rb, int n, MPI_Datatype dt, MPI_Op op, int root, MPI_Comm c) { return coll_reduce(sb, rb, n, dt, op, root, false, c, nullptr, "MPI_Reduce"); }
  int MPI_Ireduce(const void* sb, void* rb, int n, MPI_Datatype dt, MPI_Op op, int root, MPI_Comm c, MPI_Request* r) { return coll_reduce(sb, rb, n, dt, op, root, false, c, r, "MPI_Ireduce"); }
  int MPI_Allreduce(const void* sb, void* rb, int n, MPI_Datatype dt, MPI_Op op, MPI_Comm c) { return coll_reduce(sb, rb, n, dt, op, -1, true, c, nullptr, "MPI_Allreduce"); }
  int MPI_Iallreduce(const void* sb, void* rb, int n, MPI_Datatype dt, MPI_Op op, MPI_Comm c, MPI_Request* r) { return coll_reduce(sb, rb, n, dt, op, -1, true, c, r, "MPI_Iallreduce"); }

  static int coll_scan(const void* sb, void* rb, int count, MPI_Datatype dt, MPI_Op op, bool ex, MPI_Comm c, const char* fn)
  {
    entry(fn);
    CommRec& cr = comm_rec(c, fn);
    int me = crank(cr, fn);
    size_t bytes = size_t(count) * dt_size(dt);
    const void* src = (sb == MPI_IN_PLACE) ? rb : sb;
    Entered e = enter(c, ex ? K_EXSCAN : K_SCAN, -1, (long long)bytes * 64 + dt + op * 32, src, bytes, fn);
    const Slot* s = e.s;
    return run_coll(e, [s, me, ex, rb, bytes, count, dt, op]() {
      int hi = ex ? me : me + 1;
      if(hi <= 0) return;   // Exscan: receive buffer of rank 0 is undefined (left untouched)
      std::vector<char> r = reduce_range(s, 0, hi, op, dt, size_t(count), 0);
      if(bytes) memcpy(rb, r.data(), bytes);
    }, nullptr, fn);
  }
  int MPI_Scan(const void* sb, void* rb, int n, MPI_Datatype dt, MPI_Op op, MPI_Comm c) { return coll_scan(sb, rb, n, dt, op, false, c, "MPI_Scan"); }
  int MPI_Exscan(const void* sb, void* rb, int n, MPI_Datatype dt, MPI_Op op, MPI_Comm c) { return coll_scan(sb, rb, n, dt, op, true, c, "MPI_Exscan"); }

  int MPI_Type_contiguous(int n, MPI_Datatype dt, MPI_Datatype* nt) { *nt = MPI_Datatype(1000 + size_t(n) * dt_size(dt)); return MPI_SUCCESS; }
  int MPI_Type_commit(MPI_Datatype*) { return MPI_SUCCESS; }
  int MPI_Type_free(MPI_Datatype* t) { *t = MPI_DATATYPE_NULL; return MPI_SUCCESS; }
  int MPI_Op_create(MPI_User_function*, int, MPI_Op*) { usage("MPI_Op_create is not modelled (FEAT_OVERRIDE_MPI_OPS is off)"); }
  int MPI_Op_free(MPI_Op* o) { *o = MPI_OP_NULL; return MPI_SUCCESS; }

  // ---- MPI-IO on SimFS (shared file pointer only, as FEAT uses it) ------------------------------
  int MPI_File_open(MPI_Comm c, const char* name, int amode, MPI_Info, MPI_File* fh)
  {
    entry("MPI_File_open");
    std::string nm(name);
    Entered e = enter(c, K_FILE_OPEN, -1, (long long)amode, nm.data(), nm.size(), "MPI_File_open");
    e.s->early = false;
    wait_slot(e, "MPI_File_open");
    if(!e.s->result_ready)
    {
      e.s->result_ready = true;
      for(int i = 0; i < e.s->n; ++i)
        if(std::string(e.s->contrib[size_t(i)].begin(), e.s->contrib[size_t(i)].end()) != nm) usage("MPI_File_open: ranks pass different file names");
      int h = 0;
      auto it = g_fs.find(nm);
      if(it == g_fs.end() && (amode & MPI_MODE_CREATE)) it = g_fs.emplace(nm, std::make_shared<File>()).first;
      if(it != g_fs.end())
      {
        FileRec fr; fr.f = it->second; fr.fp = 0; fr.comm = c; fr.amode = amode; fr.open_refs = e.s->n;
        G->files.push_back(fr);
        h = int(G->files.size()) - 1;
      }
      e.s->out_int.assign(size_t(e.s->n), h);
    }
    *fh = e.s->out_int[size_t(e.me)];   // MPI_FILE_NULL if the file does not exist (FEAT asserts on that)
    ++G->cnt.file_ops;
    leave(e);
    return *fh == MPI_FILE_NULL ? MPI_ERR_OTHER : MPI_SUCCESS;
  }

  static FileRec& file_rec(MPI_File fh, const char* fn)
  {
    if(!G || fh <= 0 || fh >= int(G->files.size()) || !G->files[size_t(fh)].f) usage(std::string(fn) + ": invalid file handle");
    return G->files[size_t(fh)];
  }

  int MPI_File_close(MPI_File* fh)
  {
    entry("MPI_File_close");
    FileRec& fr = file_rec(*fh, "MPI_File_close");
    Entered e = enter(fr.comm, K_FILE_CLOSE, -1, (long long)*fh, nullptr, 0, "MPI_File_close");
    e.s->early = false;
    wait_slot(e, "MPI_File_close");
    leave(e);
    ++G->cnt.file_ops;
    *fh = MPI_FILE_NULL;
    return MPI_SUCCESS;
  }

  int MPI_File_set_size(MPI_File fh, MPI_Offset size)
  {
    entry("MPI_File_set_size");
    FileRec& fr = file_rec(fh, "MPI_File_set_size");
    Entered e = enter(fr.comm, K_FILE_SETSIZE, -1, (long long)size, nullptr, 0, "MPI_File_set_size");
    e.s->early = false;
    wait_slot(e, "MPI_File_set_size");
    if(!e.s->result_ready) { e.s->result_ready = true; G->files[size_t(fh)].f->data.resize(size_t(size), 0); }
    leave(e);
    ++G->cnt.file_ops;
    return MPI_SUCCESS;
  }

  int MPI_File_read_shared(MPI_File fh, void* buf, int count, MPI_Datatype dt, MPI_Status* st)
  {
    entry("MPI_File_read_shared");
    FileRec& fr = file_rec(fh, "MPI_File_read_shared");
    size_t bytes = size_t(count) * dt_size(dt);
    size_t avail = fr.fp < fr.f->data.size() ? fr.f->data.size() - fr.fp : 0;
    size_t n = std::min(bytes, avail);
    if(n) memcpy(buf, fr.f->data.data() + fr.fp, n);
    fr.fp += n;
    if(st) { st->MPI_SOURCE = MPI_PROC_NULL; st->MPI_TAG = MPI_ANY_TAG; st->MPI_ERROR = 0; st->_bytes = int(n); }
    ev("file_read_shared", uint64_t(fh), fr.fp, n);
    ++G->cnt.file_ops;
    return MPI_SUCCESS;
  }

  int MPI_File_write_shared(MPI_File fh, const void* buf, int count, MPI_Datatype dt, MPI_Status* st)
  {
    entry("MPI_File_write_shared");
    FileRec& fr = file_rec(fh, "MPI_File_write_shared");
    size_t bytes = size_t(count) * dt_size(dt);
    if(fr.f->data.size() < fr.fp + bytes) fr.f->data.resize(fr.fp + bytes, 0);
    if(bytes) memcpy(fr.f->data.data() + fr.fp, buf, bytes);
    fr.fp += bytes;
    if(st) { st->MPI_SOURCE = MPI_PROC_NULL; st->MPI_TAG = MPI_ANY_TAG; st->MPI_ERROR = 0; st->_bytes = int(bytes); }
    ev("file_write_shared", uint64_t(fh), fr.fp, bytes);
    ++G->cnt.file_ops;
    hot();
    return MPI_SUCCESS;
  }

  static int file_ordered(MPI_File fh, void* rbuf, const void* wbuf, int count, MPI_Datatype dt, MPI_Status* st, bool write, const char* fn)
  {
    entry(fn);
    FileRec& fr = file_rec(fh, fn);
    size_t bytes = size_t(count) * dt_size(dt);
    Entered e = enter(fr.comm, write ? K_FILE_WORD : K_FILE_RORD, -1, (long long)fh, write ? wbuf : nullptr, write ? bytes : 0, fn);
    e.s->early = false;       // effective once every rank has issued its call (MPI 3.1, 13.4.4)
    e.s->aux[size_t(e.me)] = {int(bytes)};
    wait_slot(e, fn);
    if(!e.s->result_ready)
    {
      e.s->result_ready = true;
      FileRec& f2 = G->files[size_t(fh)];
      for(int i = 0; i < e.s->n; ++i)
      {
        size_t b = size_t(e.s->aux[size_t(i)][0]);
        if(write)
        {
          if(f2.f->data.size() < f2.fp + b) f2.f->data.resize(f2.fp + b, 0);
          if(b) memcpy(f2.f->data.data() + f2.fp, e.s->contrib[size_t(i)].data(), b);
          f2.fp += b;
        }
        else
        {
          size_t avail = f2.fp < f2.f->data.size() ? f2.f->data.size() - f2.fp : 0;
          size_t n = std::min(b, avail);
          e.s->out_data[size_t(i)].assign(f2.f->data.begin() + long(f2.fp), f2.f->data.begin() + long(f2.fp + n));
          f2.fp += n;
        }
      }
    }
    size_t got = bytes;
    if(!write)
    {
      got = e.s->out_data[size_t(e.me)].size();
      if(got) memcpy(rbuf, e.s->out_data[size_t(e.me)].data(), got);
    }
    if(st) { st->MPI_SOURCE = MPI_PROC_NULL; st->MPI_TAG = MPI_ANY_TAG; st->MPI_ERROR = 0; st->_bytes = int(got); }
    ++G->cnt.file_ops;
    leave(e);
    return MPI_SUCCESS;
  }
  // explicit-offset access: the data movement of each rank is independent of the shared file pointer; the _all variants are
  // collective over the file's communicator (matched by call order, may complete early like any collective)
  static int file_at(MPI_File fh, MPI_Offset off, void* rbuf, const void* wbuf, int count, MPI_Datatype dt, MPI_Status* st, bool write, bool coll, const char* fn)
  {
    entry(fn);
    FileRec& fr = file_rec(fh, fn);
    if(off < 0) usage(std::string(fn) + ": negative offset");
    const size_t bytes = size_t(count) * dt_size(dt), o = size_t(off);
    size_t done = bytes;
    if(write)
    {
      if(fr.f->data.size() < o + bytes) fr.f->data.resize(o + bytes, 0);
      if(bytes) memcpy(fr.f->data.data() + o, wbuf, bytes);
    }
    else
    {
      const size_t avail = o < fr.f->data.size() ? fr.f->data.size() - o : 0;
      done = std::min(bytes, avail);
      if(done) memcpy(rbuf, fr.f->data.data() + o, done);
    }
    if(st) { st->MPI_SOURCE = MPI_PROC_NULL; st->MPI_TAG = MPI_ANY_TAG; st->MPI_ERROR = 0; st->_bytes = int(done); }
    ev(write ? "file_write_at" : "file_read_at", uint64_t(fh), o, done);
    ++G->cnt.file_ops;
    if(coll)
    {
      Entered e = enter(fr.comm, write ? K_FILE_WATALL : K_FILE_RATALL, -1, (long long)fh, nullptr, 0, fn);
      wait_slot(e, fn);
      leave(e);
    }
    hot();
    return MPI_SUCCESS;
  }
  int MPI_File_write_at(MPI_File fh, MPI_Offset off, const void* buf, int count, MPI_Datatype dt, MPI_Status* st) { return file_at(fh, off, nullptr, buf, count, dt, st, true, false, "MPI_File_write_at"); }
  int MPI_File_write_at_all(MPI_File fh, MPI_Offset off, const void* buf, int count, MPI_Datatype dt, MPI_Status* st) { return file_at(fh, off, nullptr, buf, count, dt, st, true, true, "MPI_File_write_at_all"); }
  int MPI_File_read_at(MPI_File fh, MPI_Offset off, void* buf, int count, MPI_Datatype dt, MPI_Status* st) { return file_at(fh, off, buf, nullptr, count, dt, st, false, false, "MPI_File_read_at"); }
  int MPI_File_read_at_all(MPI_File fh, MPI_Offset off, void* buf, int count, MPI_Datatype dt, MPI_Status* st) { return file_at(fh, off, buf, nullptr, count, dt, st, false, true, "MPI_File_read_at_all"); }
  int MPI_File_get_size(MPI_File fh, MPI_Offset* size)
  {
    entry("MPI_File_get_size");
    FileRec& fr = file_rec(fh, "MPI_File_get_size");
    *size = MPI_Offset(fr.f->data.size());
    return MPI_SUCCESS;
  }
  int MPI_File_read_ordered(MPI_File fh, void* buf, int count, MPI_Datatype dt, MPI_Status* st) { return file_ordered(fh, buf, nullptr, count, dt, st, false, "MPI_File_read_ordered"); }
  int MPI_File_write_ordered(MPI_File fh, const void* buf, int count, MPI_Datatype dt, MPI_Status* st) { return file_ordered(fh, nullptr, buf, count, dt, st, true, "MPI_File_write_ordered"); }
}

// race flavour (sim/race_rt.cpp): simulated ranks are processes - memory that two tasks of different ranks both touch
// (library statics, harness bookkeeping) is shared only because the ranks live in one address space here
namespace simmpi { int rank_of_task_for_race(int task); }
extern "C" int sim_race_domain(int task) { return simmpi::rank_of_task_for_race(task); }
