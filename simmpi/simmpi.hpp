// SimMPI harness-side API (DESIGN.md 3.2): a world of n simulated ranks (tasks of sim/), SimFS files.
#pragma once
#include <cstdint>
#include <functional>
#include <map>
#include <memory>
#include <string>
#include <vector>

namespace simmpi
{
  // ---- world lifecycle (controller thread, between sim::run_begin and sim::run_go) ----------------
  // draws the transport configuration of the run (eager limit, latency distribution, enabled legal
  // nondeterminism) from the run PRNG and creates n rank tasks executing body(rank)
  void world_begin(int n, std::function<void(int)> body);
  // after sim::run_go(): statistics into sim probes, leak accounting, frees the world
  void world_end();
  int world_size();
  int my_rank();              // world rank of the calling task (0 outside a world)

  // ---- SimFS: in-memory files shared by all ranks of a world and surviving world_end --------------
  struct File { std::vector<char> data; };
  std::map<std::string, std::shared_ptr<File>>& fs();
  void fs_clear();

  // counters (also exported as sim probes)
  struct Counters
  {
    uint64_t sends = 0, recvs = 0, rendezvous = 0, colls = 0, icolls = 0, waitany_choice = 0, waitany_not_first = 0,
      arrival_reorder = 0, early_exit = 0, test_not_ready = 0, max_inflight_icoll = 0, file_ops = 0, unexpected = 0,
      rendezvous_blocked = 0, comm_created = 0;
  };
  const Counters& counters();
}
