/* SimMPI: shim <mpi.h> for running FEAT3's real MPI code path on simulated ranks (threads of one process)
 * under the deterministic scheduler of /verif/sim. Only what FEAT references is declared; anything else
 * is a compile or link error on purpose (DESIGN.md 3.2). */
#ifndef SIMMPI_MPI_H
#define SIMMPI_MPI_H 1

#define SIMMPI 1
#define MPI_VERSION 3
#define MPI_SUBVERSION 1

#ifdef __cplusplus
extern "C" {
#endif

typedef int MPI_Comm;
typedef int MPI_Request;
typedef int MPI_Datatype;
typedef int MPI_Op;
typedef int MPI_Group;
typedef int MPI_File;
typedef int MPI_Info;
typedef long long MPI_Offset;
typedef long MPI_Aint;

typedef struct MPI_Status
{
  int MPI_SOURCE;
  int MPI_TAG;
  int MPI_ERROR;
  int _bytes;
} MPI_Status;

typedef void (MPI_User_function)(void*, void*, int*, MPI_Datatype*);

#define MPI_SUCCESS 0
#define MPI_ERR_OTHER 15

#define MPI_COMM_NULL  ((MPI_Comm)0)
#define MPI_COMM_WORLD ((MPI_Comm)1)
#define MPI_COMM_SELF  ((MPI_Comm)2)

#define MPI_REQUEST_NULL ((MPI_Request)0)
#define MPI_GROUP_NULL ((MPI_Group)0)
#define MPI_FILE_NULL ((MPI_File)0)
#define MPI_INFO_NULL ((MPI_Info)0)
#define MPI_OP_NULL ((MPI_Op)0)
#define MPI_DATATYPE_NULL ((MPI_Datatype)0)

#define MPI_PROC_NULL (-2)
#define MPI_ANY_SOURCE (-1)
#define MPI_ANY_TAG (-1)
#define MPI_UNDEFINED (-32766)
#define MPI_IN_PLACE ((void*)1)
#define MPI_STATUS_IGNORE ((MPI_Status*)0)
#define MPI_STATUSES_IGNORE ((MPI_Status*)0)

#define MPI_THREAD_SINGLE 0
#define MPI_THREAD_FUNNELED 1
#define MPI_THREAD_SERIALIZED 2
#define MPI_THREAD_MULTIPLE 3

#define MPI_MODE_RDONLY 2
#define MPI_MODE_RDWR 8
#define MPI_MODE_WRONLY 4
#define MPI_MODE_CREATE 1

/* datatypes: small integer ids, sizes in simmpi.cpp */
#define MPI_BYTE ((MPI_Datatype)1)
#define MPI_CHAR ((MPI_Datatype)2)
#define MPI_WCHAR ((MPI_Datatype)3)
#define MPI_SIGNED_CHAR ((MPI_Datatype)4)
#define MPI_SHORT ((MPI_Datatype)5)
#define MPI_INT ((MPI_Datatype)6)
#define MPI_LONG ((MPI_Datatype)7)
#define MPI_LONG_LONG ((MPI_Datatype)8)
#define MPI_UNSIGNED_CHAR ((MPI_Datatype)9)
#define MPI_UNSIGNED_SHORT ((MPI_Datatype)10)
#define MPI_UNSIGNED ((MPI_Datatype)11)
#define MPI_UNSIGNED_LONG ((MPI_Datatype)12)
#define MPI_UNSIGNED_LONG_LONG ((MPI_Datatype)13)
#define MPI_FLOAT ((MPI_Datatype)14)
#define MPI_DOUBLE ((MPI_Datatype)15)
#define MPI_LONG_DOUBLE ((MPI_Datatype)16)
#define MPI_INT8_T ((MPI_Datatype)17)
#define MPI_INT16_T ((MPI_Datatype)18)
#define MPI_INT32_T ((MPI_Datatype)19)
#define MPI_INT64_T ((MPI_Datatype)20)
#define MPI_UINT8_T ((MPI_Datatype)21)
#define MPI_UINT16_T ((MPI_Datatype)22)
#define MPI_UINT32_T ((MPI_Datatype)23)
#define MPI_UINT64_T ((MPI_Datatype)24)

#define MPI_SUM ((MPI_Op)1)
#define MPI_MAX ((MPI_Op)2)
#define MPI_MIN ((MPI_Op)3)

int MPI_Init(int*, char***);
int MPI_Init_thread(int*, char***, int, int*);
int MPI_Initialized(int*);
int MPI_Finalize(void);
int MPI_Finalized(int*);
int MPI_Abort(MPI_Comm, int);
double MPI_Wtime(void);

int MPI_Comm_rank(MPI_Comm, int*);
int MPI_Comm_size(MPI_Comm, int*);
int MPI_Comm_dup(MPI_Comm, MPI_Comm*);
int MPI_Comm_create(MPI_Comm, MPI_Group, MPI_Comm*);
int MPI_Comm_split(MPI_Comm, int, int, MPI_Comm*);
int MPI_Comm_free(MPI_Comm*);
int MPI_Comm_group(MPI_Comm, MPI_Group*);
int MPI_Group_incl(MPI_Group, int, const int*, MPI_Group*);
int MPI_Group_range_incl(MPI_Group, int, int[][3], MPI_Group*);
int MPI_Group_free(MPI_Group*);

int MPI_Send(const void*, int, MPI_Datatype, int, int, MPI_Comm);
int MPI_Recv(void*, int, MPI_Datatype, int, int, MPI_Comm, MPI_Status*);
int MPI_Isend(const void*, int, MPI_Datatype, int, int, MPI_Comm, MPI_Request*);
int MPI_Irecv(void*, int, MPI_Datatype, int, int, MPI_Comm, MPI_Request*);
int MPI_Wait(MPI_Request*, MPI_Status*);
int MPI_Waitany(int, MPI_Request*, int*, MPI_Status*);
int MPI_Waitall(int, MPI_Request*, MPI_Status*);
int MPI_Test(MPI_Request*, int*, MPI_Status*);
int MPI_Testany(int, MPI_Request*, int*, int*, MPI_Status*);
int MPI_Testall(int, MPI_Request*, int*, MPI_Status*);
int MPI_Request_free(MPI_Request*);
int MPI_Cancel(MPI_Request*);
int MPI_Get_count(const MPI_Status*, MPI_Datatype, int*);

int MPI_Barrier(MPI_Comm);
int MPI_Bcast(void*, int, MPI_Datatype, int, MPI_Comm);
int MPI_Gather(const void*, int, MPI_Datatype, void*, int, MPI_Datatype, int, MPI_Comm);
int MPI_Scatter(const void*, int, MPI_Datatype, void*, int, MPI_Datatype, int, MPI_Comm);
int MPI_Allgather(const void*, int, MPI_Datatype, void*, int, MPI_Datatype, MPI_Comm);
int MPI_Allgatherv(const void*, int, MPI_Datatype, void*, const int*, const int*, MPI_Datatype, MPI_Comm);
int MPI_Alltoall(const void*, int, MPI_Datatype, void*, int, MPI_Datatype, MPI_Comm);
int MPI_Alltoallv(const void*, const int*, const int*, MPI_Datatype, void*, const int*, const int*, MPI_Datatype, MPI_Comm);
int MPI_Reduce(const void*, void*, int, MPI_Datatype, MPI_Op, int, MPI_Comm);
int MPI_Allreduce(const void*, void*, int, MPI_Datatype, MPI_Op, MPI_Comm);
int MPI_Scan(const void*, void*, int, MPI_Datatype, MPI_Op, MPI_Comm);
int MPI_Exscan(const void*, void*, int, MPI_Datatype, MPI_Op, MPI_Comm);

int MPI_Ibarrier(MPI_Comm, MPI_Request*);
int MPI_Ibcast(void*, int, MPI_Datatype, int, MPI_Comm, MPI_Request*);
int MPI_Igather(const void*, int, MPI_Datatype, void*, int, MPI_Datatype, int, MPI_Comm, MPI_Request*);
int MPI_Iscatter(const void*, int, MPI_Datatype, void*, int, MPI_Datatype, int, MPI_Comm, MPI_Request*);
int MPI_Iallgather(const void*, int, MPI_Datatype, void*, int, MPI_Datatype, MPI_Comm, MPI_Request*);
int MPI_Ialltoall(const void*, int, MPI_Datatype, void*, int, MPI_Datatype, MPI_Comm, MPI_Request*);
int MPI_Ireduce(const void*, void*, int, MPI_Datatype, MPI_Op, int, MPI_Comm, MPI_Request*);
int MPI_Iallreduce(const void*, void*, int, MPI_Datatype, MPI_Op, MPI_Comm, MPI_Request*);

int MPI_Type_contiguous(int, MPI_Datatype, MPI_Datatype*);
int MPI_Type_commit(MPI_Datatype*);
int MPI_Type_free(MPI_Datatype*);
int MPI_Op_create(MPI_User_function*, int, MPI_Op*);
int MPI_Op_free(MPI_Op*);

int MPI_File_open(MPI_Comm, const char*, int, MPI_Info, MPI_File*);
int MPI_File_close(MPI_File*);
int MPI_File_set_size(MPI_File, MPI_Offset);
int MPI_File_read_shared(MPI_File, void*, int, MPI_Datatype, MPI_Status*);
int MPI_File_write_shared(MPI_File, const void*, int, MPI_Datatype, MPI_Status*);
int MPI_File_read_ordered(MPI_File, void*, int, MPI_Datatype, MPI_Status*);
int MPI_File_write_ordered(MPI_File, const void*, int, MPI_Datatype, MPI_Status*);
int MPI_File_write_at(MPI_File, MPI_Offset, const void*, int, MPI_Datatype, MPI_Status*);
int MPI_File_write_at_all(MPI_File, MPI_Offset, const void*, int, MPI_Datatype, MPI_Status*);
int MPI_File_read_at(MPI_File, MPI_Offset, void*, int, MPI_Datatype, MPI_Status*);
int MPI_File_read_at_all(MPI_File, MPI_Offset, void*, int, MPI_Datatype, MPI_Status*);
int MPI_File_get_size(MPI_File, MPI_Offset*);

#ifdef __cplusplus
}
#endif
#endif
