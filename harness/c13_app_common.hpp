// C13 (application level, shared part): an unmodified application source from /repo/applications is compiled into the harness
// (its main() renamed) and PoissonDirichlet::main runs on every simulated rank of an n-rank world; afterwards the
// same program runs on ONE rank with the level range the n-rank run has chosen. The partition-independent numbers
// the application prints (PCG defect history, H0/H1/... errors) must agree up to rounding.
#include "runner.hpp"
#include "simmpi/simmpi.hpp"

// the including file has defined APP_NS (the application's namespace), APP_NAME and included the application source
#include <iostream>
#include <sstream>

namespace
{
  struct Parsed { std::vector<double> defects; std::vector<double> errors; std::string chosen; int cmax = -1, cmin = -1; bool failed = false; };

  Parsed parse_output(const std::string& out)
  {
    Parsed p;
    std::istringstream is(out);
    std::string line;
    bool in_err = false;
    while(std::getline(is, line))
    {
      if(line.compare(0, 4, "PCG:") == 0)
      {
        // "PCG:   3 : 1.234567e-05 / 2.345678e-04 / 0.123"
        size_t c = line.find(':', 4);
        if(c != std::string::npos) p.defects.push_back(atof(line.c_str() + c + 1));
      }
      else if(line.find("Chosen  Levels:") != std::string::npos)
      {
        p.chosen = line.substr(line.find(':') + 1);
        std::istringstream ls(p.chosen); std::string tok; std::vector<int> lv;
        while(ls >> tok) lv.push_back(atoi(tok.c_str()));
        if(!lv.empty()) { p.cmax = lv.front(); p.cmin = lv.back(); }
      }
      else if(line.find("Error Analysis") != std::string::npos) in_err = true;
      else if(in_err && line.find("-Norm") != std::string::npos && line.find(':') != std::string::npos)
        p.errors.push_back(atof(line.c_str() + line.find(':') + 1));
      if(line.find("FAILED") != std::string::npos) p.failed = true;
    }
    return p;
  }

  std::string run_app_world(int n, const std::string& mesh, const std::string& levels)
  {
    std::ostringstream capture;
    std::streambuf* old = std::cout.rdbuf(capture.rdbuf());
    simmpi::world_begin(n, [mesh, levels](int) {
      std::vector<std::string> args = {"poisson_dirichlet", "--mesh", mesh, "--level"};
      std::istringstream ls(levels); std::string tok;
      while(ls >> tok) args.push_back(tok);
      args.push_back("--parti-type"); args.push_back("2level"); args.push_back("naive");
      std::vector<char*> argv;
      for(auto& a : args) argv.push_back(const_cast<char*>(a.c_str()));
      argv.push_back(nullptr);
      APP_NS::feat_app_renamed_main(int(args.size()), argv.data());
    });
    sim::run_go();
    simmpi::world_end();
    std::cout.rdbuf(old);
    return capture.str();
  }
}

HarnessInfo harness_info() { return {"C13", APP_NAME, 60000000}; }
void harness_process_init(int argc, char** argv) { FEAT::Runtime::initialize(argc, argv); }

std::string harness_run()
{
  sim::pthread_model_reset();
  sim::clock_reset();
  static const int ns[10] = {2, 2, 3, 4, 4, 6, 8, 9, 12, 16};
  const int n = ns[sim::cfg_int("n_idx", 0, 9)];
  static const char* meshes[2] = {"/repo/data/meshes/unit-square-quad.xml", "/repo/data/meshes/unit-circle-quad.xml"};
  const std::string mesh = meshes[0];
  (void)meshes;
  const int lmax = int(sim::cfg_int("lvl_max", 2, 4));
  const int lmin = int(sim::cfg_int("lvl_min", 0, lmax - 1));
  int layers = int(sim::cfg_weighted("layers", {3, 2}));
  std::string levels = std::to_string(lmax);
  if(layers == 1)
  {
    int d = 0;
    for(int k = n / 2; k >= 2; --k) if(n % k == 0) { d = k; break; }
    if(d >= 2) levels += " " + std::to_string(std::max(lmin, std::min(lmax, lmin + 1))) + ":" + std::to_string(d);
  }
  levels += " " + std::to_string(lmin);
  const std::string outA = run_app_world(n, mesh, levels);
  Parsed a = parse_output(outA);
  if(a.cmax < 0 || a.defects.empty()) sim::fail("APP_OUTPUT", "could not find the chosen levels / defect history in the application output of the " + std::to_string(n) + "-rank run: " + outA.substr(0, 400));
  const std::string outB = run_app_world(1, mesh, std::to_string(a.cmax) + " " + std::to_string(a.cmin));
  Parsed b = parse_output(outB);
  if(b.defects.empty()) sim::fail("APP_OUTPUT", "no defect history in the one-rank output");
  if(a.failed != b.failed) sim::fail("APP_SOLVER_STATUS", "solver FAILED in one of the runs only");
  long dl = long(a.defects.size()) - long(b.defects.size());
  if(dl < -1 || dl > 1) sim::fail("APP_ITERATIONS", "PCG iterations: " + std::to_string(a.defects.size() - 1) + " on " + std::to_string(n) + " ranks, " + std::to_string(b.defects.size() - 1) + " on one rank");
  const size_t m = std::min(a.defects.size(), b.defects.size());
  for(size_t i = 0; i < m; ++i)
  {
    // printed with 6 significant digits; rounding differences grow with the iteration number
    const double tol = 2e-5 * std::abs(b.defects[i]) + 1e-12 * b.defects[0];
    if(!(std::abs(a.defects[i] - b.defects[i]) <= tol * double(1 + i)))
    {
      char buf[200]; snprintf(buf, sizeof(buf), "PCG defect of iteration %zu: %.6e on %d ranks vs %.6e on one rank", i, a.defects[i], n, b.defects[i]);
      sim::fail("APP_DEFECT_HISTORY", buf);
    }
  }
  if(a.errors.size() != b.errors.size() || a.errors.empty()) sim::fail("APP_OUTPUT", "error analysis block differs in shape");
  for(size_t i = 0; i < a.errors.size(); ++i)
    if(!(std::abs(a.errors[i] - b.errors[i]) <= 1e-5 * std::abs(b.errors[i]) + 1e-14))
    {
      char buf[200]; snprintf(buf, sizeof(buf), "error norm #%zu: %.6e on %d ranks vs %.6e on one rank", i, a.errors[i], n, b.errors[i]);
      sim::fail("APP_ERROR_NORMS", buf);
    }
  return "{\"ranks\":" + std::to_string(n) + ",\"levels\":" + sim::jstr(levels) + ",\"chosen\":" + sim::jstr(a.chosen) + ",\"pcg_iterations\":" + std::to_string(a.defects.size() - 1) +
    ",\"error_norms_compared\":" + std::to_string(a.errors.size()) + "}";
}

int main(int argc, char** argv) { return harness_main(argc, argv); }
