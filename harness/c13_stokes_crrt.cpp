// C13 / tuple vectors with an edge-based second component (Lagrange-2 velocity x Crouzeix-Raviart/Rannacher-Turek
// pressure): the two component gates have different neighbour rank lists. Same harness as c13_stokes.cpp.
#define STOKES_PRES_CRRT 1
#include "c13_stokes.cpp"
