// C17 / W1: the real Assembly::DomainAssembler with its real worker threads (std::thread, ThreadFence,
// std::mutex) under the seeded scheduler of sim/ and the interposed pthread model. Oracles (DESIGN.md 5.5):
//  1 race freedom by happens-before (vector clocks) between scatter() calls on vertex-adjacent cells, combine() totally ordered
//  2 every selected cell prepared/assembled/scattered exactly once
//  3 result equals the single-threaded (assemble_master) result
//  4 termination (DEADLOCK/ABORT/TERMINATE are reported by the core)
//  5 static work-distribution invariants read through a derived class
#include "runner.hpp"

#include <kernel/runtime.hpp>
#include <kernel/analytic/common.hpp>
#include <kernel/analytic/lambda_function.hpp>
#include <kernel/assembly/common_functionals.hpp>
#include <kernel/assembly/common_operators.hpp>
#include <kernel/assembly/domain_assembler.hpp>
#include <kernel/assembly/domain_assembler_helpers.hpp>
#include <kernel/assembly/function_integral_jobs.hpp>
#include <kernel/assembly/basic_assembly_jobs.hpp>
#include <kernel/assembly/burgers_assembly_job.hpp>
#include <kernel/lafem/dense_vector_blocked.hpp>
#include <kernel/assembly/symbolic_assembler.hpp>
#include <kernel/geometry/common_factories.hpp>
#include <kernel/geometry/conformal_mesh.hpp>
#include <kernel/lafem/dense_vector.hpp>
#include <kernel/lafem/sparse_matrix_csr.hpp>
#include <kernel/lafem/sparse_matrix_bcsr.hpp>
#include <kernel/space/lagrange1/element.hpp>
#include <kernel/trafo/standard/mapping.hpp>
#ifdef C17_ISOPARAM
#include <kernel/trafo/isoparam/mapping.hpp>
#include <kernel/geometry/atlas/surface_mesh.hpp>
#include <kernel/geometry/boundary_factory.hpp>
#include <kernel/geometry/mesh_part.hpp>
#endif

#include <deque>
#include <map>
#include <set>
#include <stdexcept>

using namespace FEAT;

namespace
{
  // t_in/t_out: position of the entry/exit in the global order of recorder events of the run (t_out = 0: never left)
  struct ScatterRec { int task; Index cell; sim::VClock enter, leave; int job; uint64_t t_in = 0, t_out = 0; };
  struct CombineRec { int task; sim::VClock enter, leave; int job; uint64_t t_in = 0, t_out = 0; };

  struct Recorder
  {
    std::vector<ScatterRec> scatters;
    std::vector<CombineRec> combines;
    std::map<std::pair<int, Index>, int> prepared, scattered; // (job, cell) -> count
    std::set<int> tasks_used;
    int job = 0;
    uint64_t seq = 0;
    int open_scatter[sim::MAX_TASKS];
    Recorder() { for(int& x : open_scatter) x = -1; }

    // the recorder relies on the baton (one task runs at a time), not on locks: its own accesses are not judged
    void prepare(Index c) { sim::NoRace nr; ++prepared[{job, c}]; tasks_used.insert(sim::self()); }
    void scatter_enter(Index c)
    {
      sim::NoRace nr;
      sim::vc_tick();
      ScatterRec r; r.task = sim::self(); r.cell = c; r.enter = sim::vclock(); r.job = job; r.t_in = ++seq;
      open_scatter[sim::self()] = int(scatters.size());
      scatters.push_back(r);
      ++scattered[{job, c}];
      sim::ev("scatter_enter", c);
    }
    void scatter_leave(Index c)
    {
      sim::NoRace nr;
      sim::vc_tick();
      scatters[size_t(open_scatter[sim::self()])].leave = sim::vclock();
      scatters[size_t(open_scatter[sim::self()])].t_out = ++seq;
      sim::ev("scatter_leave", c);
    }
    void combine_enter()
    {
      sim::NoRace nr;
      sim::vc_tick();
      CombineRec r; r.task = sim::self(); r.enter = sim::vclock(); r.job = job; r.t_in = ++seq;
      open_scatter[sim::self()] = int(combines.size());
      combines.push_back(r);
      sim::ev("combine_enter");
    }
    void combine_leave()
    {
      sim::NoRace nr;
      sim::vc_tick();
      combines[size_t(open_scatter[sim::self()])].leave = sim::vclock();
      combines[size_t(open_scatter[sim::self()])].t_out = ++seq;
      sim::ev("combine_leave");
    }
  };
  Recorder* REC = nullptr;

  // a happens-before b  (a's leave precedes b's enter)
  inline bool hb(int ta, const sim::VClock& a_leave, const sim::VClock& b_enter) { return a_leave[size_t(ta)] <= b_enter[size_t(ta)]; }

  // Two critical sections of different tasks are in conflict ...
  //  * race flavour: if neither happens before the other. The vector clocks of that flavour know every synchronisation
  //    the code can use (pthread primitives from the model, atomics and static guards from the compiler instrumentation),
  //    so one run judges all interleavings with the same synchronisation order.
  //  * other flavours: if they were observed to overlap in this run (one was entered while the other had not been left;
  //    there is a scheduling point inside every section). The vector clocks of these flavours only know the pthread
  //    primitives; code that orders its sections through atomics would be accused wrongly by a happens-before verdict
  //    (it was: a fence with a lock-free acquire fast path, benign round 3), an observed overlap is a fact under any
  //    synchronisation.
  template<typename Rec_>
  inline bool in_conflict(const Rec_& a, const Rec_& b)
  {
#ifdef SIM_FLAVOUR_RACE
    return !hb(a.task, a.leave, b.enter) && !hb(b.task, b.leave, a.enter);
#else
    const uint64_t a_out = a.t_out ? a.t_out : ~uint64_t(0), b_out = b.t_out ? b.t_out : ~uint64_t(0);
    return a.t_in < b_out && b.t_in < a_out;
#endif
  }
#ifdef SIM_FLAVOUR_RACE
  const char* const conflict_how = "are not ordered by happens-before";
#else
  const char* const conflict_how = "were executed at the same time";
#endif

  // ---------------------------------------------------------------------------------------------
  // wrapper around a real job: Task derives from the real Job::Task (the assembler is duck-typed on it)
  template<typename Job_>
  struct Wrap
  {
    Job_& inner;
    long throw_cell;   // -1: never
    bool throw_in_ctor;
    explicit Wrap(Job_& j, long tc = -1, bool tic = false) : inner(j), throw_cell(tc), throw_in_ctor(tic) {}

    class Task : public Job_::Task
    {
      typedef typename Job_::Task Base;
      Wrap& w;
      Index cell = 0;
    public:
      explicit Task(Wrap& ww) : Base(ww.inner), w(ww)
      {
        sim::yield("task_ctor");
        if(w.throw_in_ctor && sim::self() != 0 && (sim::self() % 2) == 0) throw std::runtime_error("injected task constructor failure");
      }
      void prepare(Index c) { cell = c; REC->prepare(c); Base::prepare(c); }
      void assemble()
      {
        sim::yield("assemble");
        if(long(cell) == w.throw_cell) throw std::runtime_error("injected assembly failure");
        Base::assemble();
      }
      void scatter()
      {
        REC->scatter_enter(cell);
        sim::yield("scatter");
        Base::scatter();
        REC->scatter_leave(cell);
      }
      void finish() { Base::finish(); }
      void combine()
      {
        REC->combine_enter();
        sim::yield("combine");
        Base::combine();
        REC->combine_leave();
      }
    };
  };

  // ---------------------------------------------------------------------------------------------
  // analytic function whose evaluator keeps scratch state between a store and a use, with a scheduling point in between -
  // like Analytic::ParsedScalarFunction, whose evaluator copies the point into a member and owns a private parser. The
  // function interface promises one evaluator per task; a job that shares one between its tasks integrates f at the point
  // of another thread.
  template<int dim_>
  class ScratchFunction : public Analytic::Function
  {
  public:
    static constexpr int domain_dim = dim_;
    typedef Analytic::Image::Scalar ImageType;
    static constexpr bool can_value = true;
    static constexpr bool can_grad = true;
    static constexpr bool can_hess = false;

    template<typename EvalTraits_>
    class Evaluator : public Analytic::Function::Evaluator<EvalTraits_>
    {
    public:
      typedef typename EvalTraits_::DataType DataType;
      typedef typename EvalTraits_::PointType PointType;
      typedef typename EvalTraits_::ValueType ValueType;
      typedef typename EvalTraits_::GradientType GradientType;
      typedef typename EvalTraits_::HessianType HessianType;
    private:
      PointType _scratch;
    public:
      explicit Evaluator(const ScratchFunction&) {}
      ValueType value(const PointType& point)
      {
        _scratch = point;
        sim::yield("evaluator");
        DataType v = DataType(1);
        for(int i = 0; i < dim_; ++i) v += DataType(i + 2) * _scratch[i] * _scratch[i];
        return v;
      }
      GradientType gradient(const PointType& point)
      {
        _scratch = point;
        sim::yield("evaluator");
        GradientType g;
        for(int i = 0; i < dim_; ++i) g[i] = DataType(2 * (i + 2)) * _scratch[i];
        return g;
      }
      HessianType hessian(const PointType&) { return HessianType::null(); }
    };
  };

  // ---------------------------------------------------------------------------------------------
  // integer-valued probe job: scatter adds a cell weight to every vertex of the cell, combine sums a local counter
  template<typename Mesh_, bool scat_, bool comb_>
  struct ProbeJob
  {
    const Mesh_& mesh;
    std::vector<long long> vertex_sum;
    long long total = 0;
    explicit ProbeJob(const Mesh_& m) : mesh(m), vertex_sum(m.get_num_entities(0), 0) {}
    class Task
    {
    public:
      static constexpr bool need_scatter = scat_;
      static constexpr bool need_combine = comb_;
      ProbeJob& job;
      Index cell = 0;
      long long local = 0, w = 0;
      explicit Task(ProbeJob& j) : job(j) {}
      void prepare(Index c) { cell = c; }
      void assemble() { w = (long long)(cell * 7u + 3u); local += w; }
      void scatter()
      {
        const auto& idx = job.mesh.template get_index_set<Mesh_::shape_dim, 0>();
        for(int k = 0; k < idx.num_indices; ++k) job.vertex_sum[idx(cell, k)] += w;
      }
      void finish() {}
      void combine() { job.total += local; }
    };
  };

  template<typename Trafo_>
  struct DA : public Assembly::DomainAssembler<Trafo_>
  {
    typedef Assembly::DomainAssembler<Trafo_> Base;
    explicit DA(const Trafo_& t) : Base(t) {}
    const std::vector<Index>& layer_elements() const { return this->_layer_elements; }
    const std::vector<Index>& thread_layers() const { return this->_thread_layers; }
    const std::vector<Index>& color_elements() const { return this->_color_elements; }
    const std::vector<Index>& elem_indices() const { return this->_element_indices; }
  };

  struct Verdict { uint64_t scatters = 0, combines = 0, pairs_checked = 0, workers = 0, jobs = 0, entries_compared = 0; };

  template<typename Mesh_>
  struct Runner
  {
#ifdef C17_ISOPARAM
    // isoparametric trafo of degree 2 whose boundary facets are linked to a SurfaceMesh chart: every task's trafo
    // evaluator projects the boundary nodes of its cell onto the chart in prepare() - chart state is shared by all tasks
    typedef Trafo::Isoparam::Mapping<Mesh_, 2> TrafoType;
#else
    typedef Trafo::Standard::Mapping<Mesh_> TrafoType;
#endif
    typedef Space::Lagrange1::Element<TrafoType> SpaceType;
    typedef LAFEM::DenseVector<double, Index> VectorType;
    typedef LAFEM::SparseMatrixCSR<double, Index> MatrixType;
    static constexpr int dim = Mesh_::shape_dim;

    Mesh_& mesh;
    std::vector<std::vector<Index>> cells_at_vertex;
    std::vector<Index> selected;
    Verdict vd;

    explicit Runner(Mesh_& m) : mesh(m) {}

    bool adjacent(Index a, Index b) const
    {
      const auto& idx = mesh.template get_index_set<dim, 0>();
      for(int i = 0; i < idx.num_indices; ++i)
        for(int j = 0; j < idx.num_indices; ++j)
          if(idx(a, i) == idx(b, j)) return true;
      return false;
    }

    void check_static(const DA<TrafoType>& da, Assembly::ThreadingStrategy strat_req, std::size_t maxw)
    {
      const std::size_t nw = da.get_num_worker_threads();
      vd.workers = nw;
      if(nw > maxw) sim::fail("DISTRIBUTION", "more worker threads than requested");
      // element indices must be a permutation of the selected set
      std::vector<Index> e(da.get_element_indices());
      std::sort(e.begin(), e.end());
      if(e != selected) sim::fail("DISTRIBUTION", "element index vector is not a permutation of the selected cells");
      if(nw < 2) return;
      auto strat = da.get_threading_strategy();
      (void)strat_req;
      if(strat == Assembly::ThreadingStrategy::layered || strat == Assembly::ThreadingStrategy::layered_sorted)
      {
        const auto& le = da.layer_elements();
        const auto& tl = da.thread_layers();
        if(le.empty() || le.front() != 0u || le.back() != Index(selected.size())) sim::fail("DISTRIBUTION", "layer offsets do not cover the element vector");
        for(size_t i = 0; i + 1 < le.size(); ++i) if(le[i] > le[i + 1]) sim::fail("DISTRIBUTION", "layer offsets not monotone");
        if(tl.size() != nw + 1u || tl.front() != 0u || tl.back() != Index(le.size() - 1u)) sim::fail("DISTRIBUTION", "thread layer blocks do not partition the layers");
        for(size_t i = 0; i + 1 < tl.size(); ++i)
          if(tl[i + 1] < tl[i] + 2u) sim::fail("DISTRIBUTION", "thread " + std::to_string(i) + " has fewer than two layers");
        // Cuthill-McKee property the fence protocol relies on: vertex-adjacent cells lie in the same or in neighbouring layers
        std::map<Index, Index> layer_of;
        const auto& ei = da.elem_indices();
        for(size_t l = 0; l + 1 < le.size(); ++l) for(Index k = le[l]; k < le[l + 1]; ++k) layer_of[ei[k]] = Index(l);
        for(size_t v = 0; v < cells_at_vertex.size(); ++v)
          for(Index a : cells_at_vertex[v]) for(Index b : cells_at_vertex[v])
          {
            auto ia = layer_of.find(a), ib = layer_of.find(b);
            if(ia == layer_of.end() || ib == layer_of.end()) continue;
            Index d = ia->second > ib->second ? ia->second - ib->second : ib->second - ia->second;
            if(d > 1u) sim::fail("DISTRIBUTION", "vertex-adjacent cells " + std::to_string(a) + "," + std::to_string(b) + " are more than one layer apart");
          }
        sim::probe("layered_multi_worker");
        for(size_t i = 0; i + 1 < tl.size(); ++i) if(tl[i + 1] == tl[i] + 2u) { sim::probe("thread_with_exactly_two_layers"); break; }
      }
      else if(strat == Assembly::ThreadingStrategy::colored)
      {
        const auto& ce = da.color_elements();
        const auto& ei = da.elem_indices();
        if(ce.empty() || ce.front() != 0u || ce.back() != Index(selected.size())) sim::fail("DISTRIBUTION", "colour offsets do not cover the element vector");
        for(size_t c = 0; c + 1 < ce.size(); ++c)
          for(Index i = ce[c]; i < ce[c + 1]; ++i)
            for(Index j = i + 1; j < ce[c + 1]; ++j)
              if(adjacent(ei[i], ei[j])) sim::fail("DISTRIBUTION", "two vertex-adjacent cells share colour " + std::to_string(c));
        sim::probe("colored_multi_worker");
      }
      if(nw < maxw) sim::probe("fewer_workers_than_requested");
    }

    void check_history(int njobs, const std::vector<bool>& job_failed, const std::vector<bool>& job_scatter)
    {
      // 2: exactly once
      for(int j = 0; j < njobs; ++j)
      {
        if(job_failed[size_t(j)]) continue;
        for(Index c : selected)
        {
          auto it = REC->prepared.find({j, c});
          int n = it == REC->prepared.end() ? 0 : it->second;
          if(n != 1) sim::fail("EXACTLY_ONCE", "cell " + std::to_string(c) + " prepared " + std::to_string(n) + " times in job " + std::to_string(j));
          if(job_scatter[size_t(j)])
          {
            auto is = REC->scattered.find({j, c});
            int m = is == REC->scattered.end() ? 0 : is->second;
            if(m != 1) sim::fail("EXACTLY_ONCE", "cell " + std::to_string(c) + " scattered " + std::to_string(m) + " times in job " + std::to_string(j));
          }
        }
        for(auto& kv : REC->prepared)
          if(kv.first.first == j && !std::binary_search(selected.begin(), selected.end(), kv.first.second))
            sim::fail("EXACTLY_ONCE", "unselected cell " + std::to_string(kv.first.second) + " was assembled");
      }
      // 1: happens-before between scatters on vertex-adjacent cells of different tasks (same job)
      std::map<Index, std::vector<size_t>> by_cell;
      for(size_t i = 0; i < REC->scatters.size(); ++i) by_cell[REC->scatters[i].cell].push_back(i);
      vd.scatters = REC->scatters.size();
      for(size_t v = 0; v < cells_at_vertex.size(); ++v)
      {
        const auto& cs = cells_at_vertex[v];
        for(size_t x = 0; x < cs.size(); ++x) for(size_t y = x; y < cs.size(); ++y)
        {
          auto ia = by_cell.find(cs[x]), ib = by_cell.find(cs[y]);
          if(ia == by_cell.end() || ib == by_cell.end()) continue;
          for(size_t i : ia->second) for(size_t k : ib->second)
          {
            const ScatterRec& a = REC->scatters[i]; const ScatterRec& b = REC->scatters[k];
            if(i == k || a.task == b.task || a.job != b.job) continue;
            ++vd.pairs_checked;
            if(in_conflict(a, b))
              sim::fail("RACE", "scatter on vertex-adjacent cells " + std::to_string(a.cell) + " (task " + std::to_string(a.task) + ") and " +
                std::to_string(b.cell) + " (task " + std::to_string(b.task) + ") " + conflict_how);
          }
        }
      }
      vd.combines = REC->combines.size();
      for(size_t i = 0; i < REC->combines.size(); ++i) for(size_t k = i + 1; k < REC->combines.size(); ++k)
      {
        const CombineRec& a = REC->combines[i]; const CombineRec& b = REC->combines[k];
        if(a.task == b.task || a.job != b.job) continue;
        ++vd.pairs_checked;
        if(in_conflict(a, b))
          sim::fail("RACE", "combine() of tasks " + std::to_string(a.task) + " and " + std::to_string(b.task) + " " + conflict_how);
      }
    }

    template<typename T_>
    void compare(const char* what, const T_* a, const T_* b, Index n, double reltol)
    {
      double mx = 0.0;
      for(Index i = 0; i < n; ++i) mx = std::max(mx, std::abs(double(b[i])));
      for(Index i = 0; i < n; ++i)
      {
        ++vd.entries_compared;
        if(!(std::abs(double(a[i]) - double(b[i])) <= reltol * mx))
          sim::fail("RESULT", std::string(what) + ": entry " + std::to_string(i) + " threaded=" + std::to_string(double(a[i])) + " serial=" + std::to_string(double(b[i])));
      }
    }

    // knob names of the second round on the same assembler object get a prefix (a knob may be drawn once per run)
    std::string kp;
    std::deque<std::string> kpool;
    const char* K(const char* n) { kpool.push_back(kp + n); return kpool.back().c_str(); }

    void body()
    {
      TrafoType trafo(mesh);
#ifdef C17_ISOPARAM
      // the surface of the unit cube as a triangulated SurfaceMesh chart (8 vertices, 12 triangles), linked to the boundary
      std::unique_ptr<Geometry::Atlas::ChartBase<Mesh_>> chart_holder;
      std::unique_ptr<Geometry::MeshPart<Mesh_>> bnd_holder;
      if constexpr(Mesh_::shape_dim == 3)
      {
        typedef Geometry::Atlas::SurfaceMesh<Mesh_> SurfChart;
        typedef typename SurfChart::SurfaceMeshType SurfMesh;
        Index ne[3] = {8, 0, 12};
        std::unique_ptr<SurfMesh> sm(new SurfMesh(ne));
        auto& vx = sm->get_vertex_set();
        for(Index i = 0; i < 8; ++i) { vx[i][0] = double(i & 1u); vx[i][1] = double((i >> 1) & 1u); vx[i][2] = double((i >> 2) & 1u); }
        static const Index tri[12][3] = {{0,3,1},{0,2,3},{4,5,7},{4,7,6},{0,1,5},{0,5,4},{2,7,3},{2,6,7},{0,4,6},{0,6,2},{1,3,7},{1,7,5}};
        auto& ix = sm->template get_index_set<2, 0>();
        for(Index t = 0; t < 12; ++t) for(int k = 0; k < 3; ++k) ix(t, k) = tri[t][k];
        sm->deduct_topology_from_top();
        chart_holder.reset(new SurfChart(std::move(sm)));
        Geometry::BoundaryFactory<Mesh_> bnd_factory(mesh);
        bnd_holder.reset(new Geometry::MeshPart<Mesh_>(bnd_factory));
        trafo.add_meshpart_chart(*bnd_holder, *chart_holder);
        sim::probe("isoparametric_trafo_with_surface_chart");
      }
#endif
      SpaceType space(trafo);
      DA<TrafoType> da(trafo);
      // history: the same assembler object is cleared and compiled again for another cell subset, strategy and worker count
      const int rounds = 1 + int(sim::cfg_weighted("rounds", {3, 1}));
      for(int round = 0; round < rounds; ++round)
      {
        kp = (round == 0 ? "" : "r2.");
        selected.clear();
        if(round > 0) { da.clear(); sim::probe("assembler_cleared_and_recompiled"); }
        one_round(trafo, space, da);
      }
    }

    void one_round(TrafoType& trafo, SpaceType& space, DA<TrafoType>& da)
    {
      // selection of cells
      const Index ncells = mesh.get_num_elements();
      {
        const auto& idx = mesh.template get_index_set<dim, 0>();
        cells_at_vertex.assign(mesh.get_num_entities(0), {});
        int selmode = int(sim::cfg_weighted(K("select"), {5, 3, 1, 1, 1}));
        std::vector<char> mask(ncells, 0);
        switch(selmode)
        {
        case 0: for(Index c = 0; c < ncells; ++c) mask[c] = 1; break;
        case 1: { int pm = int(sim::cfg_int(K("sel_pm"), 100, 900)); uint64_t s = uint64_t(sim::cfg_int(K("sel_seed"), 0, 1 << 20));
                  for(Index c = 0; c < ncells; ++c) { s = s * 6364136223846793005ull + 1442695040888963407ull; mask[c] = ((s >> 33) % 1000) < uint64_t(pm); } } break;
        case 2: mask[Index(sim::cfg_int(K("sel_a"), 0, 1 << 20)) % ncells] = 1; break;
        case 3: mask[Index(sim::cfg_int(K("sel_a"), 0, 1 << 20)) % ncells] = 1; mask[Index(sim::cfg_int(K("sel_b"), 0, 1 << 20)) % ncells] = 1; break;
        case 4: { Index n = 1 + Index(sim::cfg_int(K("sel_n"), 0, 15)); Index off = Index(sim::cfg_int(K("sel_a"), 0, 1 << 20)) % ncells;
                  for(Index c = 0; c < n && c < ncells; ++c) mask[(off + c) % ncells] = 1; } break;
        }
        for(Index c = 0; c < ncells; ++c) if(mask[c]) { selected.push_back(c); for(int k = 0; k < idx.num_indices; ++k) cells_at_vertex[idx(c, k)].push_back(c); }
        if(selected.empty()) { selected.push_back(0); for(int k = 0; k < idx.num_indices; ++k) cells_at_vertex[idx(0, k)].push_back(0); }
      }

      static const Assembly::ThreadingStrategy strats[5] = {Assembly::ThreadingStrategy::automatic, Assembly::ThreadingStrategy::single,
        Assembly::ThreadingStrategy::layered, Assembly::ThreadingStrategy::layered_sorted, Assembly::ThreadingStrategy::colored};
      int si = int(sim::cfg_weighted(K("strat"), {2, 1, 4, 3, 4}));
      static const int wc[10] = {0, 1, 2, 2, 3, 3, 4, 5, 8, 14};
      std::size_t maxw = std::size_t(wc[sim::cfg_int(K("workers_idx"), 0, 9)]);
      if(sim::cfg_int(K("workers_gt_cells"), 0, 9) == 0) maxw = std::min<std::size_t>(selected.size() + 3u, 16u);

      da.set_threading_strategy(strats[si]);
      da.set_max_worker_threads(maxw);
      if(selected.size() == ncells && sim::cfg_int(K("compile_all"), 0, 1) == 1) da.compile_all_elements();
      else { for(Index c : selected) da.add_element(c); da.compile(); }
      check_static(da, strats[si], maxw);

      // reference assembler: same cells, master thread only
      DA<TrafoType> ref(trafo);
      for(Index c : selected) ref.add_element(c);
      ref.compile();

      int njobs = int(sim::cfg_int(K("jobs"), 1, 3));
      std::vector<bool> failed, has_scatter;
      Recorder rec;
      REC = &rec;
      Recorder ref_rec;
      for(int j = 0; j < njobs; ++j)
      {
        rec.job = j;
        int kind = int(sim::cfg_weighted(K(("job" + std::to_string(j)).c_str()), {4, 2, 2, 3, 3, 2, 2, 1, 1, 1, 1, 1, 2, 1, 2, 1, 2}));
        bool fail_job = false;
        bool scat = true;
        long nsel = long(selected.size());
        switch(kind)
        {
        case 0: // probe: scatter + combine
          {
            ProbeJob<Mesh_, true, true> job(mesh), rjob(mesh);
            Wrap<ProbeJob<Mesh_, true, true>> w(job);
            da.assemble(w);
            REC = &ref_rec; Wrap<ProbeJob<Mesh_, true, true>> rw(rjob); ref.assemble_master(rw); REC = &rec;
            if(job.vertex_sum != rjob.vertex_sum) sim::fail("RESULT", "probe job: vertex sums differ from the single-threaded result");
            if(job.total != rjob.total) sim::fail("RESULT", "probe job: combined total differs from the single-threaded result");
            vd.entries_compared += job.vertex_sum.size();
          }
          break;
        case 1: // probe: scatter only
          {
            ProbeJob<Mesh_, true, false> job(mesh), rjob(mesh);
            Wrap<ProbeJob<Mesh_, true, false>> w(job);
            da.assemble(w);
            REC = &ref_rec; Wrap<ProbeJob<Mesh_, true, false>> rw(rjob); ref.assemble_master(rw); REC = &rec;
            if(job.vertex_sum != rjob.vertex_sum) sim::fail("RESULT", "probe job (scatter only): vertex sums differ from the single-threaded result");
            vd.entries_compared += job.vertex_sum.size();
          }
          break;
        case 2: // probe: combine only (no-scatter path: cells split evenly, combine under the thread mutex)
          {
            scat = false;
            ProbeJob<Mesh_, false, true> job(mesh), rjob(mesh);
            Wrap<ProbeJob<Mesh_, false, true>> w(job);
            da.assemble(w);
            REC = &ref_rec; Wrap<ProbeJob<Mesh_, false, true>> rw(rjob); ref.assemble_master(rw); REC = &rec;
            if(job.total != rjob.total) sim::fail("RESULT", "probe job (combine only): total differs from the single-threaded result");
            vd.entries_compared += 1;
          }
          break;
        case 3: // real linear functional (force) into a DenseVector
          {
            ScratchFunction<dim> func;
            Assembly::Common::ForceFunctional<ScratchFunction<dim>> functional(func);
            typedef Assembly::LinearFunctionalAssemblyJob<decltype(functional), VectorType, SpaceType> JobType;
            VectorType v(space.get_num_dofs(), 0.0), rv(space.get_num_dofs(), 0.0);
            JobType job(functional, v, space, "auto-degree:2", 1.0), rjob(functional, rv, space, "auto-degree:2", 1.0);
            Wrap<JobType> w(job);
            da.assemble(w);
            REC = &ref_rec; Wrap<JobType> rw(rjob); ref.assemble_master(rw); REC = &rec;
            compare("linear functional vector", v.elements(), rv.elements(), v.size(), 1e-12);
          }
          break;
        case 4: // real bilinear operator (Laplace) into a CSR matrix
          {
            Assembly::Common::LaplaceOperator op;
            typedef Assembly::BilinearOperatorMatrixAssemblyJob1<Assembly::Common::LaplaceOperator, MatrixType, SpaceType> JobType;
            MatrixType m, rm;
            Assembly::SymbolicAssembler::assemble_matrix_std1(m, space);
            rm = m.clone(LAFEM::CloneMode::Weak);
            m.format(); rm.format();
            JobType job(op, m, space, "auto-degree:2", 1.0), rjob(op, rm, space, "auto-degree:2", 1.0);
            Wrap<JobType> w(job);
            da.assemble(w);
            REC = &ref_rec; Wrap<JobType> rw(rjob); ref.assemble_master(rw); REC = &rec;
            compare("Laplace matrix", m.val(), rm.val(), m.used_elements(), 1e-12);
          }
          break;
        case 12: // blocked bilinear operator (vector Laplace) into a BCSR matrix: the task owns a BCSR scatter object
        case 13: // the same with the Du:Dv operator (couples the components)
          {
            constexpr int bd = Mesh_::world_dim;
            typedef LAFEM::SparseMatrixBCSR<double, Index, bd, bd> BMatrix;
            BMatrix m, rm;
            Assembly::SymbolicAssembler::assemble_matrix_std1(m, space);
            rm = m.clone(LAFEM::CloneMode::Weak);
            m.format(); rm.format();
            if(kind == 12)
            {
              Assembly::Common::LaplaceOperatorBlocked<bd> op;
              typedef Assembly::BilinearOperatorMatrixAssemblyJob1<Assembly::Common::LaplaceOperatorBlocked<bd>, BMatrix, SpaceType> JobType;
              JobType job(op, m, space, "auto-degree:2", 1.0), rjob(op, rm, space, "auto-degree:2", 1.0);
              Wrap<JobType> w(job);
              da.assemble(w);
              REC = &ref_rec; Wrap<JobType> rw(rjob); ref.assemble_master(rw); REC = &rec;
            }
            else
            {
              Assembly::Common::DuDvOperatorBlocked<bd> op;
              typedef Assembly::BilinearOperatorMatrixAssemblyJob1<Assembly::Common::DuDvOperatorBlocked<bd>, BMatrix, SpaceType> JobType;
              JobType job(op, m, space, "auto-degree:2", 1.0), rjob(op, rm, space, "auto-degree:2", 1.0);
              Wrap<JobType> w(job);
              da.assemble(w);
              REC = &ref_rec; Wrap<JobType> rw(rjob); ref.assemble_master(rw); REC = &rec;
            }
            compare("blocked operator matrix", m.template val<LAFEM::Perspective::pod>(), rm.template val<LAFEM::Perspective::pod>(), m.template used_elements<LAFEM::Perspective::pod>(), 1e-12);
          }
          break;
        case 16: // Burgers defect vector: scatters into a blocked vector (the other vector jobs write scalar vectors)
          {
            constexpr int bd = Mesh_::world_dim;
            typedef LAFEM::DenseVectorBlocked<double, Index, bd> BVector;
            const auto& vtx = mesh.get_vertex_set();
            BVector conv(mesh.get_num_entities(0)), sol(mesh.get_num_entities(0)), rhs(mesh.get_num_entities(0)), rrhs(mesh.get_num_entities(0));
            for(Index v = 0; v < mesh.get_num_entities(0); ++v)
            {
              Tiny::Vector<double, bd> t, u;
              for(int d = 0; d < bd; ++d) { t[d] = 0.5 + double(vtx[v][d]) * (d % 2 ? -1.0 : 1.0); u[d] = double((v * 7u + Index(d) * 3u) % 11u) / 8.0 - 0.5; }
              conv(v, t); sol(v, u);
            }
            rhs.format(); rrhs.format();
            typedef Assembly::BurgersBlockedVectorAssemblyJob<BVector, SpaceType, BVector> JobType;
            JobType job(rhs, sol, conv, space, "auto-degree:3"), rjob(rrhs, sol, conv, space, "auto-degree:3");
            for(JobType* jp : {&job, &rjob}) { jp->nu = 0.1; jp->theta = 0.5; jp->beta = 1.0; jp->frechet_beta = 0.0; jp->sd_delta = 0.0; jp->sd_nu = 0.1; }
            Wrap<JobType> w(job);
            da.assemble(w);
            REC = &ref_rec; Wrap<JobType> rw(rjob); ref.assemble_master(rw); REC = &rec;
            compare("Burgers defect vector (blocked)", rhs.template elements<LAFEM::Perspective::pod>(), rrhs.template elements<LAFEM::Perspective::pod>(), rhs.template size<LAFEM::Perspective::pod>(), 1e-12);
          }
          break;
        case 14: // Burgers operator with streamline diffusion into a BCSR matrix: the task keeps per-cell state (mean
        case 15: // velocity, local mesh width, local stabilisation parameter) between prepare() and assemble(); 15: CSR
          {
            constexpr int bd = Mesh_::world_dim;
            typedef LAFEM::DenseVectorBlocked<double, Index, bd> ConvVector;
            // convection field: linear, with its stagnation point in the barycentre of a seeded selected cell (the
            // stabilisation parameter of that cell is not computed from the velocity but has to be zero there)
            const auto& vtx = mesh.get_vertex_set();
            const auto& idx = mesh.template get_index_set<Mesh_::shape_dim, 0>();
            const Index c0 = selected[size_t(sim::cfg_int(K(("stag" + std::to_string(j)).c_str()), 0, 1 << 20)) % selected.size()];
            double x0[3] = {0, 0, 0};
            for(int k = 0; k < idx.num_indices; ++k) for(int d = 0; d < bd; ++d) x0[d] += double(vtx[idx(c0, k)][d]) / double(idx.num_indices);
            ConvVector conv(mesh.get_num_entities(0));
            for(Index v = 0; v < mesh.get_num_entities(0); ++v)
            {
              Tiny::Vector<double, bd> t;
              for(int d = 0; d < bd; ++d) t[d] = ((d % 2) ? -1.0 : 1.0) * (double(vtx[v][d]) - x0[d]) + (d + 1 < bd ? 0.5 * (double(vtx[v][d + 1]) - x0[d + 1]) : 0.0);
              conv(v, t);
            }
            const double sd = double(sim::cfg_int(K(("sd" + std::to_string(j)).c_str()), 0, 3)) * 0.15;
            const double fb = double(sim::cfg_int(K(("frechet" + std::to_string(j)).c_str()), 0, 1));
            auto setup = [&](auto& job) { job.nu = 0.1; job.theta = 0.5; job.beta = 1.0; job.frechet_beta = fb; job.sd_delta = sd; job.sd_nu = 0.1; job.set_sd_v_norm(conv); };
            if(kind == 14)
            {
              typedef LAFEM::SparseMatrixBCSR<double, Index, bd, bd> BMatrix;
              BMatrix m, rm;
              Assembly::SymbolicAssembler::assemble_matrix_std1(m, space);
              rm = m.clone(LAFEM::CloneMode::Weak);
              m.format(); rm.format();
              typedef Assembly::BurgersBlockedMatrixAssemblyJob<BMatrix, SpaceType, ConvVector> JobType;
              JobType job(m, conv, space, "auto-degree:3"), rjob(rm, conv, space, "auto-degree:3");
              setup(job); setup(rjob);
              Wrap<JobType> w(job);
              da.assemble(w);
              REC = &ref_rec; Wrap<JobType> rw(rjob); ref.assemble_master(rw); REC = &rec;
              compare("Burgers matrix (blocked)", m.template val<LAFEM::Perspective::pod>(), rm.template val<LAFEM::Perspective::pod>(), m.template used_elements<LAFEM::Perspective::pod>(), 1e-12);
            }
            else
            {
              MatrixType m, rm;
              Assembly::SymbolicAssembler::assemble_matrix_std1(m, space);
              rm = m.clone(LAFEM::CloneMode::Weak);
              m.format(); rm.format();
              typedef Assembly::BurgersScalarMatrixAssemblyJob<MatrixType, SpaceType, ConvVector> JobType;
              JobType job(m, conv, space, "auto-degree:3"), rjob(rm, conv, space, "auto-degree:3");
              setup(job); setup(rjob);
              Wrap<JobType> w(job);
              da.assemble(w);
              REC = &ref_rec; Wrap<JobType> rw(rjob); ref.assemble_master(rw); REC = &rec;
              compare("Burgers matrix (scalar)", m.val(), rm.val(), m.used_elements(), 1e-12);
            }
          }
          break;
        case 5: // real function integral (no scatter, combine under the mutex)
          {
            scat = false;
            ScratchFunction<dim> func;
            typedef Assembly::AnalyticFunctionIntegralJob<double, ScratchFunction<dim>, TrafoType, 1> JobType;
            JobType job(func, trafo, "auto-degree:3"), rjob(func, trafo, "auto-degree:3");
            Wrap<JobType> w(job);
            da.assemble(w);
            REC = &ref_rec; Wrap<JobType> rw(rjob); ref.assemble_master(rw); REC = &rec;
            double a[3] = {double(job.result().value), double(job.result().norm_h0_sqr), double(job.result().norm_h1_sqr)};
            double b[3] = {double(rjob.result().value), double(rjob.result().norm_h0_sqr), double(rjob.result().norm_h1_sqr)};
            compare("function integral", a, b, 3, 1e-11);
          }
          break;
        case 7: // force functional (analytic function itself as the force) into a DenseVector
          {
            ScratchFunction<dim> func;
            typedef Assembly::ForceFunctionalAssemblyJob<ScratchFunction<dim>, VectorType, SpaceType> JobType;
            VectorType v(space.get_num_dofs(), 0.0), rv(space.get_num_dofs(), 0.0);
            JobType job(func, v, space, "auto-degree:2", 0.5), rjob(func, rv, space, "auto-degree:2", 0.5);
            Wrap<JobType> w(job);
            da.assemble(w);
            REC = &ref_rec; Wrap<JobType> rw(rjob); ref.assemble_master(rw); REC = &rec;
            compare("force functional vector", v.elements(), rv.elements(), v.size(), 1e-12);
          }
          break;
        case 8: // bilinear operator with separate test and trial space arguments (mass matrix)
          {
            Assembly::Common::IdentityOperator op;
            typedef Assembly::BilinearOperatorMatrixAssemblyJob2<Assembly::Common::IdentityOperator, MatrixType, SpaceType, SpaceType> JobType;
            MatrixType m, rm;
            Assembly::SymbolicAssembler::assemble_matrix_std1(m, space);
            rm = m.clone(LAFEM::CloneMode::Weak);
            m.format(); rm.format();
            JobType job(op, m, space, space, "auto-degree:2", 2.0), rjob(op, rm, space, space, "auto-degree:2", 2.0);
            Wrap<JobType> w(job);
            da.assemble(w);
            REC = &ref_rec; Wrap<JobType> rw(rjob); ref.assemble_master(rw); REC = &rec;
            compare("mass matrix (test/trial job)", m.val(), rm.val(), m.used_elements(), 1e-12);
          }
          break;
        case 9: // error integral of a discrete function (no scatter, combine under the mutex)
          {
            scat = false;
            ScratchFunction<dim> func;
            VectorType uh(space.get_num_dofs());
            for(Index i = 0; i < uh.size(); ++i) uh(i, double((i * 37u) % 11u) * 0.125 - 0.5);
            typedef Assembly::ErrorFunctionIntegralJob<ScratchFunction<dim>, VectorType, SpaceType, 1> JobType;
            JobType job(func, uh, space, "auto-degree:3"), rjob(func, uh, space, "auto-degree:3");
            Wrap<JobType> w(job);
            da.assemble(w);
            REC = &ref_rec; Wrap<JobType> rw(rjob); ref.assemble_master(rw); REC = &rec;
            double a[3] = {double(job.result().value), double(job.result().norm_h0_sqr), double(job.result().norm_h1_sqr)};
            double b[3] = {double(rjob.result().value), double(rjob.result().norm_h0_sqr), double(rjob.result().norm_h1_sqr)};
            compare("error function integral", a, b, 3, 1e-11);
          }
          break;
        case 10: // cell-wise error integral: scatter writes the cell's own entry, combine adds the total
          {
            ScratchFunction<dim> func;
            VectorType uh(space.get_num_dofs());
            for(Index i = 0; i < uh.size(); ++i) uh(i, double((i * 29u) % 13u) * 0.125 - 0.75);
            typedef Assembly::CellErrorFunctionIntegralJob<ScratchFunction<dim>, VectorType, SpaceType, 0> JobType;
            JobType job(func, uh, space, "auto-degree:3"), rjob(func, uh, space, "auto-degree:3");
            Wrap<JobType> w(job);
            da.assemble(w);
            REC = &ref_rec; Wrap<JobType> rw(rjob); ref.assemble_master(rw); REC = &rec;
            auto res = job.result(); auto rres = rjob.result();
            double a[2] = {double(res.integral_info.value), double(res.integral_info.norm_h0_sqr)};
            double b[2] = {double(rres.integral_info.value), double(rres.integral_info.norm_h0_sqr)};
            compare("cell error integral (total)", a, b, 2, 1e-11);
            if(res.vec.size() != rres.vec.size()) sim::fail("RESULT", "cell error vector has a different length than the single-threaded one");
            compare("cell error integral (per cell)", res.vec.elements(), rres.vec.elements(), res.vec.size(), 1e-12);
          }
          break;
        case 11: // lambda function without derivative formulae: its gradient comes from Richardson extrapolation inside the
                 // library's evaluator (documented as safe: no lambda object and no evaluator is shared between threads)
          {
            scat = false;
            auto run_lambda = [&](auto func)
            {
              typedef decltype(func) FuncType;
              typedef Assembly::AnalyticFunctionIntegralJob<double, FuncType, TrafoType, 1> JobType;
              JobType job(func, trafo, "auto-degree:3"), rjob(func, trafo, "auto-degree:3");
              Wrap<JobType> w(job);
              da.assemble(w);
              REC = &ref_rec; Wrap<JobType> rw(rjob); ref.assemble_master(rw); REC = &rec;
              double a[3] = {double(job.result().value), double(job.result().norm_h0_sqr), double(job.result().norm_h1_sqr)};
              double b[3] = {double(rjob.result().value), double(rjob.result().norm_h0_sqr), double(rjob.result().norm_h1_sqr)};
              compare("lambda function integral (extrapolated derivatives)", a, b, 3, 1e-9);
            };
            if constexpr(dim == 2) run_lambda(Analytic::create_lambda_function_scalar_2d([](double x, double y) { sim::yield("lambda"); return 1.0 + x * x + 2.0 * x * y + 3.0 * y * y; }));
            else run_lambda(Analytic::create_lambda_function_scalar_3d([](double x, double y, double z) { sim::yield("lambda"); return 1.0 + x * x + 2.0 * y * z + 3.0 * z * z; }));
          }
          break;
        case 6: // failing job: a task throws on a seeded cell or in its constructor -> everybody must still terminate
          {
            fail_job = true;
            ProbeJob<Mesh_, true, true> job(mesh);
            bool in_ctor = sim::cfg_int(K(("throw_in_ctor" + std::to_string(j)).c_str()), 0, 3) == 0;
            long tc = in_ctor ? -1 : long(selected[size_t(sim::cfg_int(K(("throw_sel" + std::to_string(j)).c_str()), 0, 1 << 20)) % size_t(nsel)]);
            Wrap<ProbeJob<Mesh_, true, true>> w(job, tc, in_ctor);
            da.assemble(w);
            sim::probe("failing_job_terminated");
          }
          break;
        }
        failed.push_back(fail_job);
        has_scatter.push_back(scat);
        ++vd.jobs;
      }
      check_history(njobs, failed, has_scatter);
      if(rec.tasks_used.size() >= 3) sim::probe("three_or_more_threads_assembled");
      REC = nullptr;
    }
  };

  Verdict g_vd;

  template<typename Mesh_>
  void run_with_mesh(int level, int perm)
  {
    Geometry::RefinedUnitCubeFactory<Mesh_> factory{Index(level)};
    Mesh_ mesh(factory);
    static const Geometry::PermutationStrategy ps[5] = {Geometry::PermutationStrategy::none, Geometry::PermutationStrategy::random,
      Geometry::PermutationStrategy::colored, Geometry::PermutationStrategy::cuthill_mckee, Geometry::PermutationStrategy::lexicographic};
    if(perm > 0) mesh.create_permutation(ps[perm]);
    Runner<Mesh_> r(mesh);
    r.body();
    g_vd = r.vd;
  }
}

#ifdef C17_ISOPARAM
HarnessInfo harness_info() { return {"C17", "c17_iso", 3000000}; }
#else
HarnessInfo harness_info() { return {"C17", "c17_asm", 3000000}; }
#endif
void harness_process_init(int argc, char** argv) { Runtime::initialize(argc, argv); }

std::string harness_run()
{
  sim::pthread_model_reset();
  sim::clock_reset();
  sim::fault_setup("SPURIOUS_WAKEUP", {10, 50, 200});
#ifdef C17_ISOPARAM
  int mk = int(sim::cfg_weighted("mesh", {0, 0, 1}));   // hexahedra only: the SurfaceMesh chart is the surface of the unit cube
#else
  int mk = int(sim::cfg_weighted("mesh", {5, 3, 2}));
#endif
  int level;
  const bool big = sim::thorough();
  if(mk == 0) level = int(sim::cfg_weighted("level", {1, 2, 4, 4, 1, big ? 1 : 0}));      // quads: 1,4,16,64,256(,1024) cells
  else if(mk == 1) level = int(sim::cfg_weighted("level", {1, 3, 3, 2, big ? 1 : 0})); // triangles: 2,8,32,128(,512)
  else level = int(sim::cfg_weighted("level", {1, 3, 2, big ? 1 : 0, 0}));             // hexas: 1,8,64(,512)
  int perm = int(sim::cfg_weighted("perm", {5, 1, 2, 1, 1}));
  g_vd = Verdict();
  sim::spawn("master", [=]() {
#ifndef C17_ISOPARAM
    if(mk == 0) run_with_mesh<Geometry::ConformalMesh<Shape::Hypercube<2>>>(level, perm);
    else if(mk == 1) run_with_mesh<Geometry::ConformalMesh<Shape::Simplex<2>>>(level, perm);
    else
#endif
    run_with_mesh<Geometry::ConformalMesh<Shape::Hypercube<3>>>(level, perm);
  });
  sim::run_go();
  return "{\"scatters\":" + std::to_string(g_vd.scatters) + ",\"combines\":" + std::to_string(g_vd.combines) + ",\"hb_pairs_checked\":" + std::to_string(g_vd.pairs_checked) +
    ",\"workers\":" + std::to_string(g_vd.workers) + ",\"jobs\":" + std::to_string(g_vd.jobs) + ",\"entries_compared\":" + std::to_string(g_vd.entries_compared) + "}";
}

int main(int argc, char** argv) { return harness_main(argc, argv); }
