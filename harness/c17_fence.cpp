// C17 / W0: the real FEAT::ThreadFence under a seeded scheduler, checked against a three-line sequential
// fence model. The linearisation order of open/close/wait critical sections is observed exactly (order of
// acquisitions of the fence's mutex, reported by the pthread model), so the oracle is exact:
//   * a wait() may return v only if, at its last acquisition of the fence mutex, the model fence was open with state v;
//   * a wait() that saw the fence open must return (not block again);
//   * once nobody closes any more and the fence has been opened, every pending wait() returns (else DEADLOCK).
// The exact oracle presumes that open/close/wait each enter the fence's mutex. If an implementation does not (lock-free
// flags, another member layout), that is noticed - an operation completes without the expected acquisition - and the run
// falls back to the interval oracle, which needs nothing but the invocation and return of every operation: a wait() that
// returned v is wrong only if every open(v) had returned before some close() was invoked, and that close() had returned
// before the wait() was invoked. Lost wake-ups still end as DEADLOCK in both modes.
#include "runner.hpp"
#include <kernel/util/thread.hpp>
#include <kernel/runtime.hpp>
#include <memory>
#include <vector>

using namespace FEAT;

namespace
{
  enum OpKind { OP_OPEN_T = 0, OP_OPEN_F = 1, OP_CLOSE = 2, OP_WAIT = 3 };
  struct Op { int fence; int kind; };
  struct FenceModel { bool open = false, okay = false; };

  struct TaskState
  {
    std::vector<Op> ops;
    int cur = -1;            // index of the op in flight (-1 = none)
    int cur_fence = -1, cur_kind = -1;
    int n_obs = 0;           // acquisitions seen during the op in flight
    FenceModel last_obs;
    bool waiting = false;
    int wait_epoch = 0;
    bool finished = false;
  };

  struct OpRec { int fence, kind; uint64_t inv, ret; };   // ret == 0: still in flight

  struct Scenario
  {
    bool exact = true;       // exact linearisation oracle usable (every operation observed inside the fence mutex)
    uint64_t seq = 0;        // global operation clock (invocations and returns)
    std::vector<OpRec> log;  // all open/close operations with their intervals
    int nf = 1, nt = 2;
    std::vector<std::unique_ptr<ThreadFence>> fences;
    std::vector<FenceModel> model;
    std::vector<TaskState> ts;
    int finished = 0;
    int rescue_epoch = 0;
    long close_count = 0, last_close_count = 0;
    uint64_t waits_returned = 0, waits_blocked = 0, acquisitions = 0;
  };
  Scenario* S = nullptr;

  int fence_of(const void* addr)
  {
    for(int i = 0; i < S->nf; ++i) if((const void*)S->fences[size_t(i)].get() == addr) return i;
    return -1;
  }

  // is an open (want_open) resp. close operation on this fence in flight that has not been seen inside the mutex (yet)?
  bool unobserved_in_flight(int f, bool want_open)
  {
    for(const TaskState& o : S->ts)
      if(o.cur >= 0 && o.cur_fence == f && o.n_obs == 0 && (want_open ? (o.cur_kind == OP_OPEN_T || o.cur_kind == OP_OPEN_F) : o.cur_kind == OP_CLOSE)) return true;
    return false;
  }

  void leave_exact_mode(const char* why)
  {
    if(!S->exact) return;
    S->exact = false;
    sim::probe("fence_exact_linearisation_unavailable");
    sim::note(std::string("falling back to the interval oracle: ") + why);
  }

  // interval oracle for a wait() on fence f that was invoked at w_inv and has just returned v
  void interval_check(int f, bool v, uint64_t w_inv, int t)
  {
    // the close with the latest invocation among those that had returned before the wait was invoked
    const OpRec* c = nullptr;
    for(const OpRec& o : S->log) if(o.fence == f && o.kind == OP_CLOSE && o.ret != 0 && o.ret < w_inv && (c == nullptr || o.inv > c->inv)) c = &o;
    bool some_open = false, open_after = false;
    for(const OpRec& o : S->log)
    {
      if(o.fence != f || o.kind != (v ? OP_OPEN_T : OP_OPEN_F)) continue;
      some_open = true;
      if(c == nullptr || o.ret == 0 || o.ret > c->inv) open_after = true;   // could have taken effect after that close
    }
    if(!some_open)
      sim::fail("FENCE_WAIT_WRONG_STATE", "wait() on fence " + std::to_string(f) + " returned " + std::to_string(int(v)) + " but nobody ever opened the fence with that state (task " + std::to_string(t) + ")");
    if(!open_after)
      sim::fail("FENCE_WAIT_RETURNED_CLOSED", "wait() on fence " + std::to_string(f) + " returned although every open() had completed before a close() that itself completed before the wait began (task " + std::to_string(t) + ")");
  }

  void observer(int what, const void* addr)
  {
    if(what != sim::SYNC_ACQUIRE) return;
    int f = fence_of(addr);
    if(f < 0) return;
    int t = sim::self();
    if(t < 0 || t >= S->nt) return;
    TaskState& st = S->ts[size_t(t)];
    if(st.cur < 0 || st.cur_fence != f) return;
    ++S->acquisitions;
    FenceModel& m = S->model[size_t(f)];
    switch(st.cur_kind)
    {
    case OP_OPEN_T: m.open = true; m.okay = true; break;
    case OP_OPEN_F: m.open = true; m.okay = false; break;
    case OP_CLOSE: m.open = false; m.okay = false; break;
    case OP_WAIT:
      if(S->exact && st.n_obs > 0 && st.last_obs.open && !unobserved_in_flight(f, false))
        sim::fail("FENCE_WAIT_NOT_RETURNED", "wait() saw fence " + std::to_string(f) + " open but went back to sleep (task " + std::to_string(t) + ")");
      st.last_obs = m;
      break;
    }
    ++st.n_obs;
    sim::ev("fence_cs", uint64_t(f), uint64_t(st.cur_kind), uint64_t(m.open) * 2 + uint64_t(m.okay));
  }

  void do_op(int t, const Op& op, int idx)
  {
    TaskState& st = S->ts[size_t(t)];
    ThreadFence& f = *S->fences[size_t(op.fence)];
    st.cur = idx; st.cur_fence = op.fence; st.cur_kind = op.kind; st.n_obs = 0;
    const uint64_t inv = ++S->seq;
    size_t li = size_t(-1);
    if(op.kind != OP_WAIT) { li = S->log.size(); S->log.push_back({op.fence, op.kind, inv, 0}); }
    switch(op.kind)
    {
    case OP_OPEN_T: f.open(true); break;
    case OP_OPEN_F: f.open(false); break;
    case OP_CLOSE: f.close(); ++S->close_count; break;
    case OP_WAIT:
      {
        st.waiting = true; st.wait_epoch = S->rescue_epoch;
        bool v = f.wait();
        st.waiting = false;
        ++S->waits_returned;
        if(st.n_obs > 1) ++S->waits_blocked;
        if(st.n_obs == 0) leave_exact_mode("a wait() completed without entering the fence mutex");
        // the model may lag behind an open()/close() that does not use the mutex: such an operation is only recognised when
        // it completes, so a disagreement while one is in flight unobserved is not evidence yet
        if(S->exact && (!st.last_obs.open || st.last_obs.okay != v) && (unobserved_in_flight(op.fence, true) || unobserved_in_flight(op.fence, false)))
          leave_exact_mode("an open()/close() is in flight that has not entered the fence mutex");
        if(S->exact)
        {
          if(!st.last_obs.open)
            sim::fail("FENCE_WAIT_RETURNED_CLOSED", "wait() on fence " + std::to_string(op.fence) + " returned although the fence was closed at its last check (task " + std::to_string(t) + ")");
          if(st.last_obs.okay != v)
            sim::fail("FENCE_WAIT_WRONG_STATE", "wait() returned " + std::to_string(int(v)) + " but the fence was opened with " + std::to_string(int(st.last_obs.okay)));
        }
        else interval_check(op.fence, v, inv, t);
        sim::ev("wait_ret", uint64_t(op.fence), uint64_t(v));
      }
      break;
    }
    if(li != size_t(-1)) S->log[li].ret = ++S->seq;
    if(op.kind != OP_WAIT && st.n_obs != 1) leave_exact_mode("an open()/close() completed without exactly one acquisition of the fence mutex");
    st.cur = -1;
  }

  void task_body(int t)
  {
    TaskState& st = S->ts[size_t(t)];
    for(size_t i = 0; i < st.ops.size(); ++i) do_op(t, st.ops[i], int(i));
    if(t != 0)
    {
      st.finished = true;
      ++S->finished;
      return;
    }
    // task 0 ends as the rescuer: it re-opens all fences whenever somebody may be stuck behind a closed one,
    // so that a run can only deadlock if the fence protocol itself loses a wake-up
    for(;;)
    {
      std::function<bool()> need = []() {
        if(S->finished == S->nt - 1) return true;
        bool any_wait = false, fresh = false;
        for(int k = 1; k < S->nt; ++k)
        {
          const TaskState& o = S->ts[size_t(k)];
          if(o.waiting) { any_wait = true; if(o.wait_epoch == S->rescue_epoch) fresh = true; }
        }
        return any_wait && (fresh || S->close_count != S->last_close_count);
      };
      if(!need()) sim::block_until(need, "rescuer: nobody stuck");
      if(S->finished == S->nt - 1) break;
      ++S->rescue_epoch;
      S->last_close_count = S->close_count;
      for(int f = 0; f < S->nf; ++f)
      {
        st.cur = 1000; st.cur_fence = f; st.cur_kind = OP_OPEN_T; st.n_obs = 0;
        const size_t li = S->log.size();
        S->log.push_back({f, OP_OPEN_T, ++S->seq, 0});
        S->fences[size_t(f)]->open(true);
        S->log[li].ret = ++S->seq;
        if(st.n_obs != 1) leave_exact_mode("an open() completed without exactly one acquisition of the fence mutex");
        st.cur = -1;
      }
      sim::probe("rescue_round");
    }
  }
}

HarnessInfo harness_info() { return {"C17", "c17_fence", 200000}; }
void harness_process_init(int, char**) {}

std::string harness_run()
{
  Scenario sc;
  S = &sc;
  sim::pthread_model_reset();
  sim::clock_reset();
  sim::fault_setup("SPURIOUS_WAKEUP", {20, 100, 300});
  sc.nf = int(sim::cfg_int("fences", 1, 3));
  sc.nt = int(sim::cfg_int("tasks", 2, 6));
  int maxops = int(sim::cfg_int("max_ops", 1, 12));
  // op mix: weights for open(true), open(false), close, wait
  int mix = int(sim::cfg_int("mix", 0, 2));
  static const int W[3][4] = {{3, 1, 2, 4}, {1, 1, 1, 1}, {2, 0, 3, 5}};
  for(int f = 0; f < sc.nf; ++f) { sc.fences.emplace_back(new ThreadFence); sc.model.emplace_back(); }
  sc.ts.resize(size_t(sc.nt));
  for(int t = 0; t < sc.nt; ++t)
  {
    int n = int(sim::cfg_int(("ops" + std::to_string(t)).c_str(), 0, maxops));
    for(int i = 0; i < n; ++i)
    {
      Op op;
      op.fence = int(sim::cfg_int(("t" + std::to_string(t) + "o" + std::to_string(i) + "f").c_str(), 0, sc.nf - 1));
      op.kind = int(sim::cfg_weighted(("t" + std::to_string(t) + "o" + std::to_string(i) + "k").c_str(), {W[mix][0], W[mix][1], W[mix][2], W[mix][3]}));
      // task 0 never waits before its rescuer phase (it is the one guaranteed source of progress)
      if(t == 0 && op.kind == OP_WAIT) op.kind = OP_OPEN_T;
      sc.ts[size_t(t)].ops.push_back(op);
    }
  }
  sim::set_sync_observer(observer);
  for(int t = 0; t < sc.nt; ++t) sim::spawn("fence-task" + std::to_string(t), [t]() { task_body(t); });
  sim::run_go();
  sim::set_sync_observer(nullptr);
  sim::probe("waits_returned", sc.waits_returned);
  sim::probe("fence_wait_actually_blocked", sc.waits_blocked);
  std::string extra = "{\"acq\":" + std::to_string(sc.acquisitions) + "}";
  S = nullptr;
  return extra;
}

int main(int argc, char** argv) { return harness_main(argc, argv); }
