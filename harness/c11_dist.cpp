// C11-W3 (DESIGN.md 5.2): n simulated ranks read ONE stored file through the file-name entry points the applications
// use - MeshFileReader::add_mesh_files(comm, names, dir) and PropertyMap::read(comm, name) -, i.e. through
// DistFileIO::read_common: the root reads the file, the text is broadcast (Comm::bcast_stringstream over SimMPI with its
// seeded legal nondeterminism), every rank parses its copy. 0-2 storage fault ops hit the stored bytes first (crash
// truncation down to an empty file, torn/dropped/duplicated blocks, bit flips, one zeroed byte).
// Oracles: the world terminates (no deadlock, no abort); every rank ends like the parser does on the text of the file
// (reference: the same bytes parsed from a plain std::istringstream in a one-task world): parsed object - then the
// re-written output is byte-identical on all ranks and to the reference - or a documented exception (the family and the
// message are not compared: both families are documented outcomes);
// input that is invalid by construction is rejected by every rank; the untouched file is accepted by every rank.
#include "runner.hpp"
#include "simmpi/simmpi.hpp"
#include "simfs/simstream.hpp"

#include <kernel/runtime.hpp>
#include <kernel/util/dist.hpp>
#include <kernel/util/dist_file_io.hpp>
#include <kernel/util/property_map.hpp>
#include <kernel/util/exception.hpp>
#include <kernel/geometry/conformal_mesh.hpp>
#include <kernel/geometry/mesh_node.hpp>
#include <kernel/geometry/mesh_atlas.hpp>
#include <kernel/geometry/partition_set.hpp>
#include <kernel/geometry/mesh_file_reader.hpp>
#include <kernel/geometry/mesh_file_writer.hpp>

#include <dirent.h>
#include <fstream>
#include <sstream>
#include <sys/stat.h>
#include <unistd.h>

using namespace FEAT;
using simfs::Bytes;

namespace
{
  struct FileEntry { std::string name; int shape; Bytes bytes; Bytes charts; };   // charts: companion chart file, read first (multi-file meshes)
  std::vector<FileEntry> g_files;   // shape 0..3: quad, tria, hexa, tetra; 4: property map (INI)
  const char* g_types[4] = {"conformal:hypercube:2:2", "conformal:simplex:2:2", "conformal:hypercube:3:3", "conformal:simplex:3:3"};

  std::string g_dir;
  struct DirGuard { ~DirGuard() { if(!g_dir.empty()) { ::unlink((g_dir + "/in.dat").c_str()); ::unlink((g_dir + "/ch.dat").c_str()); ::rmdir(g_dir.c_str()); } } } g_dir_guard;

  struct Result
  {
    int outcome = -1;          // 0 parsed, 1 rejected
    std::string family, what;  // exception family and message of a rejection
    std::string rewritten;     // parsed object written again (mesh writer output / PropertyMap::dump)
  };
  std::vector<Result> g_res;   // per rank of the current world

  void load_files()
  {
    const char* dir = "/repo/data/meshes";
    std::vector<std::string> names;
    if(DIR* d = opendir(dir))
    {
      while(dirent* e = readdir(d)) { std::string n = e->d_name; if(n.size() > 4 && n.substr(n.size() - 4) == ".xml") names.push_back(n); }
      closedir(d);
    }
    std::sort(names.begin(), names.end());
    std::vector<FileEntry> pending, chart_files;
    for(const auto& n : names)
    {
      std::ifstream f(std::string(dir) + "/" + n, std::ios::binary);
      Bytes b((std::istreambuf_iterator<char>(f)), std::istreambuf_iterator<char>());
      if(b.size() > 140000 || b.empty()) continue;
      std::string all(b.begin(), b.end());
      if(all.find("mesh=\"") == std::string::npos || all.find("mesh=\"") > 400) { chart_files.push_back({n, -1, b, Bytes()}); continue; }   // chart-only file

      // self-contained files only (mesh parts that refer to charts of a companion file are not valid on their own)
      bool external_chart = false;
      for(size_t p = all.find(" chart=\""); p != std::string::npos && !external_chart; p = all.find(" chart=\"", p + 1))
      {
        size_t q = p + 8, e = all.find('"', q);
        if(e == std::string::npos) break;
        std::string cn = all.substr(q, e - q);
        if(!cn.empty() && all.find("<Chart name=\"" + cn + "\"") == std::string::npos) external_chart = true;
      }
      if(external_chart) { pending.push_back({n, -1, b, Bytes()}); continue; }
      if(b.size() > 30000) continue;   // single files: the small ones (n ranks parse each); the multi-file meshes are all > 100 kB
      std::string head = all.substr(0, std::min<size_t>(all.size(), 400));
      for(int t = 0; t < 4; ++t)
        if(head.find(std::string("mesh=\"") + g_types[t] + "\"") != std::string::npos) g_files.push_back({n, t, b});
    }
    // multi-file meshes: a mesh whose parts refer to charts of a companion file, paired with the first chart-only file that
    // defines all of them; the reader gets both names, the chart file first
    for(const FileEntry& pe : pending)
    {
      std::string all(pe.bytes.begin(), pe.bytes.end());
      std::string head = all.substr(0, std::min<size_t>(all.size(), 400));
      for(const FileEntry& cf : chart_files)
      {
        std::string cs(cf.bytes.begin(), cf.bytes.end());
        bool ok = true;
        for(size_t p = all.find(" chart=\""); p != std::string::npos && ok; p = all.find(" chart=\"", p + 1))
        {
          size_t q = p + 8, e = all.find('"', q);
          if(e == std::string::npos) { ok = false; break; }
          std::string cn = all.substr(q, e - q);
          if(!cn.empty() && all.find("<Chart name=\"" + cn + "\"") == std::string::npos && cs.find("<Chart name=\"" + cn + "\"") == std::string::npos) ok = false;
        }
        if(!ok) continue;
        for(int t = 0; t < 4; ++t)
          if(head.find(std::string("mesh=\"") + g_types[t] + "\"") != std::string::npos) g_files.push_back({pe.name + "+" + cf.name, t, pe.bytes, cf.bytes});
        break;
      }
    }
    // property maps: three texts in the documented INI format (sections, nested sections, comments, continuation lines)
    static const char* inis[3] = {
      "# solver configuration\nmax-iter = 100\ntol_rel = 1E-8\n\n[linsolver]\ntype = pcg\nprecon = jac\n\n[jac]\ntype = jacobi\nomega = 0.7\n",
      "key = value\nlong = first part &\n  second part\n[A]\n{\n  x = 1\n  [B]\n  {\n    y = 2 # trailing comment\n    [C]\n    z = 3\n  }\n}\n[D]\nname = Hello World!\n",
      "a=1\nb = \n[S]\n# only a comment\n[T]\nk = a = b\nm = [not a section]\n",
    };
    for(int i = 0; i < 3; ++i) { std::string s = inis[i]; g_files.push_back({"generated:ini-" + std::to_string(i), 4, Bytes(s.begin(), s.end())}); }
  }

  void make_dir()
  {
    const char* base = ::access("/dev/shm", W_OK) == 0 ? "/dev/shm" : (getenv("TMPDIR") ? getenv("TMPDIR") : "/tmp");
    g_dir = std::string(base) + "/feat3sim_c11d_" + std::to_string(long(getpid()));
    ::mkdir(g_dir.c_str(), 0700);
  }

  // the parser on a text: add(reader) attaches the input, whichever way
  template<typename Mesh_, typename Add_>
  void parse_mesh(Result& r, Add_&& add)
  {
    typedef Geometry::RootMeshNode<Mesh_> NodeType;
    typedef Geometry::MeshAtlas<Mesh_> AtlasType;
    std::unique_ptr<AtlasType> atlas(new AtlasType);
    std::unique_ptr<NodeType> node = NodeType::make_unique(nullptr, atlas.get());
    Geometry::PartitionSet parts;
    try
    {
      Geometry::MeshFileReader reader;
      add(reader);
      reader.parse(*node, *atlas, &parts);
      std::ostringstream os;
      Geometry::MeshFileWriter writer(os);
      writer.write(node.get(), atlas.get(), &parts);
      r.rewritten = os.str();
      r.outcome = 0;
    }
    catch(const Xml::Error& e) { r.outcome = 1; r.family = "Xml::Error"; r.what = e.what(); }
    catch(const FEAT::Exception& e) { r.outcome = 1; r.family = "FEAT::Exception"; r.what = e.what(); }
    catch(const std::exception& e) { sim::fail("FOREIGN_EXCEPTION", std::string("parser left with an undocumented exception: ") + e.what()); }
  }

  template<typename Read_>
  void parse_pmap(Result& r, Read_&& rd)
  {
    try
    {
      PropertyMap pm;
      rd(pm);
      std::ostringstream os;
      pm.write(os);
      r.rewritten = os.str();
      r.outcome = 0;
    }
    catch(const FEAT::Exception& e) { r.outcome = 1; r.family = "FEAT::Exception"; r.what = e.what(); }
    catch(const std::exception& e) { sim::fail("FOREIGN_EXCEPTION", std::string("PropertyMap::read left with an undocumented exception: ") + e.what()); }
  }

  template<typename Add_>
  void parse_shape(int shape, Result& r, Add_&& add)
  {
    switch(shape)
    {
    case 0: parse_mesh<Geometry::ConformalMesh<FEAT::Shape::Hypercube<2>>>(r, add); break;
    case 1: parse_mesh<Geometry::ConformalMesh<FEAT::Shape::Simplex<2>>>(r, add); break;
    case 2: parse_mesh<Geometry::ConformalMesh<FEAT::Shape::Hypercube<3>>>(r, add); break;
    default: parse_mesh<Geometry::ConformalMesh<FEAT::Shape::Simplex<3>>>(r, add); break;
    }
  }

  // one zeroed byte (a classic artefact of a partially written sector); aimed at white space half of the time, where a
  // text parser is most likely to tolerate it
  void nul_byte(Bytes& b, simfs::FaultLog& log)
  {
    if(b.empty()) return;
    size_t at = simfs::pick(b.size(), "nul_at");
    if(simfs::pick(2, "nul_ws") == 0)
    {
      std::vector<size_t> cand;
      for(size_t i = 0; i < b.size(); ++i) if(simfs::is_ws(b[i])) cand.push_back(i);
      if(!cand.empty()) at = cand[simfs::pick(cand.size(), "nul_ws_at")];
    }
    b[at] = 0;
    log.ops += "NUL_BYTE(" + std::to_string(at) + ") ";
    sim::count_fault("NUL_BYTE");
  }

  bool declares_huge(const Bytes& bf, const Bytes& orig)
  {
    auto maxnum = [](const Bytes& b) {
      std::string s(b.begin(), b.end()); double mx = 0;
      for(size_t p = s.find("size=\""); p != std::string::npos; p = s.find("size=\"", p + 1))
      {
        size_t q = p + 6;
        while(q < s.size() && s[q] != '"' && q < p + 200)
        {
          if(isdigit((unsigned char)s[q])) { double v = 0; while(q < s.size() && isdigit((unsigned char)s[q])) { v = v * 10 + (s[q] - '0'); ++q; } if(v > mx) mx = v; }
          else ++q;
        }
      }
      return mx;
    };
    return maxnum(bf) > 10.0 * maxnum(orig) + 1000.0;
  }

  std::string shorten(const std::string& s) { return s.size() > 160 ? s.substr(0, 160) + "..." : s; }
}

HarnessInfo harness_info() { return {"C11", "c11_dist", 3000000}; }
void harness_process_init(int argc, char** argv) { Runtime::initialize(argc, argv); load_files(); make_dir(); }

std::string harness_run()
{
  sim::pthread_model_reset();
  sim::clock_reset();
  if(g_files.empty()) sim::fail("INFRA", "no input files found");
  static const int ns[6] = {2, 2, 3, 4, 5, 8};
  const int n = ns[sim::cfg_int("n_idx", 0, 5)];
  const bool ini = sim::cfg_weighted("kind", {7, 3}) == 1;
  std::vector<size_t> cand;
  for(size_t i = 0; i < g_files.size(); ++i) if((g_files[i].shape == 4) == ini) cand.push_back(i);
  if(cand.empty()) sim::fail("INFRA", "no input file of the drawn kind");
  const FileEntry& fe = g_files[cand[size_t(sim::cfg_int("file", 0, 1 << 20)) % cand.size()]];
  const int nfaults = int(sim::cfg_weighted("nfaults", {2, 5, 2}));

  Bytes bytes = fe.bytes, charts = fe.charts;
  const bool two_files = !fe.charts.empty();
  if(two_files) sim::probe("multi_file_mesh", 1);
  simfs::FaultLog flog;
  Result ref;
  std::vector<Result> res((size_t)n);
  bool skipped = false;

  // world 1: one task applies the fault ops (they draw decisions) and parses the stored text directly: the reference
  sim::spawn("ref", [&]() {
    for(int k = 0; k < nfaults; ++k)
    {
      // a multi-file mesh is damaged in one of its two files
      const bool hit_charts = two_files && simfs::pick(2, "fault_in_chart_file") == 1;
      Bytes& tgt = hit_charts ? charts : bytes;
      if(hit_charts) flog.ops += "[chart file] ";
      // weights: TRUNCATE_AT 3, TRUNCATE_TO_EMPTY 1, TORN_BLOCK 2, DROP_BLOCK 2, DUP_BLOCK 2, BITFLIP 3, NUL_BYTE 3
      static const int kinds[16] = {0, 0, 0, 1, 2, 2, 3, 3, 4, 4, 5, 5, 5, 6, 6, 6};
      switch(kinds[sim::decide(sim::PICK, 16, "fault_kind")])
      {
      case 0: simfs::truncate_at(tgt, flog, int(simfs::pick(2, "trunc_bias"))); break;
      case 1: if(!tgt.empty()) { tgt.clear(); flog.ops += "TRUNCATE_TO_EMPTY "; if(!ini && !hit_charts) { flog.must_reject = true; flog.why += "nothing of the mesh file reached the disk; "; } sim::count_fault("TRUNCATE_TO_EMPTY"); } break;
      case 2: simfs::torn_block(tgt, flog); break;
      case 3: simfs::drop_block(tgt, flog); break;
      case 4: simfs::dup_block(tgt, flog); break;
      case 5: simfs::bitflip(tgt, flog, int(simfs::pick(2, "flip_bias"))); break;
      default: nul_byte(tgt, flog); break;
      }
    }
    if(nfaults > 1) flog.must_reject = false;   // the must-reject claim is by construction of a single op
    if(ini) flog.must_reject = false;           // an INI text cut anywhere outside an open brace is still a property map
    if(!ini && (declares_huge(bytes, fe.bytes) || (two_files && declares_huge(charts, fe.charts)))) { skipped = true; return; }
    const std::string text(bytes.begin(), bytes.end()), ctext(charts.begin(), charts.end());
    if(ini) parse_pmap(ref, [&](PropertyMap& pm) { std::istringstream is(text); pm.read(is, true); });
    else { std::istringstream is(text), isc(ctext); parse_shape(fe.shape, ref, [&](Geometry::MeshFileReader& rd) { if(two_files) rd.add_stream(isc); rd.add_stream(is); }); }
  });
  sim::run_go();
  if(skipped) { sim::probe("skipped_huge_count", 1); return "{\"file\":" + sim::jstr(fe.name) + ",\"skipped\":1}"; }

  // the stored bytes reach the real file system (private tmpfs directory): read_common opens files by name
  const std::string fname = "in.dat";
  {
    std::ofstream f(g_dir + "/" + fname, std::ios::binary | std::ios::trunc);
    f.write(bytes.data(), std::streamsize(bytes.size()));
    if(!f.good()) sim::fail("INFRA", "cannot write the scratch file");
  }
  if(two_files)
  {
    std::ofstream f(g_dir + "/ch.dat", std::ios::binary | std::ios::trunc);
    f.write(charts.data(), std::streamsize(charts.size()));
    if(!f.good()) sim::fail("INFRA", "cannot write the scratch file");
  }

  // world 2: n ranks read the file by name
  const int shape = fe.shape;
  simmpi::world_begin(n, [&res, ini, shape, fname, two_files](int r) {
    Dist::Comm comm = Dist::Comm::world();
    Result& my = res[size_t(r)];
    if(ini) parse_pmap(my, [&](PropertyMap& pm) { pm.read(comm, String(g_dir + "/" + fname), true); });
    else parse_shape(shape, my, [&](Geometry::MeshFileReader& rd) { std::deque<String> names; if(two_files) names.push_back(String("ch.dat")); names.push_back(String(fname)); rd.add_mesh_files(comm, names, String(g_dir)); });
  });
  sim::run_go();
  simmpi::world_end();

  const std::string ops = flog.ops.empty() ? std::string("no fault") : flog.ops;
  for(int r = 0; r < n; ++r)
  {
    const Result& my = res[size_t(r)];
    const std::string who = "rank " + std::to_string(r) + " of " + std::to_string(n) + ", file " + fe.name + " after " + ops;
    if(my.outcome < 0) sim::fail("DIST_PARSE_NO_OUTCOME", who + ": the rank ended without an outcome");
    // an empty file: whether the file layer hands an empty text to the parser or refuses the file with a documented
    // exception of its own is its business - the ranks have to agree, and an empty mesh file has to be rejected
    const bool compare_with_ref = !bytes.empty() && !(two_files && charts.empty());
    if(compare_with_ref && my.outcome != ref.outcome)
      sim::fail("DIST_PARSE_DIFFERS", who + ": " + (my.outcome == 0 ? std::string("parsed an object") : "rejected (" + my.family + ": " + shorten(my.what) + ")") +
        ", but the parser on the text of the file " + (ref.outcome == 0 ? std::string("parses an object") : "rejects it (" + ref.family + ": " + shorten(ref.what) + ")"));
    if(compare_with_ref && my.outcome == 0 && my.rewritten != ref.rewritten) sim::fail("DIST_PARSE_DIFFERS", who + ": the parsed object written again differs from what the parser makes of the text of the file");
    if(my.outcome != res[0].outcome || my.rewritten != res[0].rewritten) sim::fail("DIST_PARSE_DIVERGES", who + ": outcome differs from rank 0");
  }
  if(nfaults == 0 && ref.outcome != 0) sim::fail("REJECTED_VALID", "file " + fe.name + " without any fault was rejected: " + ref.family + ": " + shorten(ref.what));
  if(flog.must_reject && (ref.outcome == 0 || res[0].outcome == 0)) sim::fail("ACCEPTED_INVALID", "file " + fe.name + " after " + ops + " was accepted although " + flog.why);
  sim::probe(ref.outcome == 0 ? "world_accepted" : "world_rejected", 1);
  if(!bytes.empty() && std::find(bytes.begin(), bytes.end(), char(0)) != bytes.end()) sim::probe("text_with_nul_byte", 1);
  if(bytes.empty()) sim::probe("empty_file", 1);
  return "{\"file\":" + sim::jstr(fe.name) + ",\"ranks\":" + std::to_string(n) + ",\"faults\":" + sim::jstr(ops) + ",\"accepted\":" + std::to_string(ref.outcome == 0 ? 1 : 0) + "}";
}

int main(int argc, char** argv) { return harness_main(argc, argv); }
