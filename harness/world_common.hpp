// Shared by the n-rank harnesses (C12, C13): world configuration drawn from the run PRNG, a domain control
// with a seam for explicit cell->rank assignments, and geometric entity keys that identify mesh entities
// across ranks independently of any index map of the code under test (DESIGN.md 5.3).
#pragma once
#include "runner.hpp"
#include "simmpi/simmpi.hpp"

#include <kernel/runtime.hpp>
#include <kernel/util/dist.hpp>
#include <kernel/util/dist_file_io.hpp>
#include <kernel/geometry/conformal_mesh.hpp>
#include <kernel/geometry/mesh_node.hpp>
#include <kernel/geometry/mesh_file_reader.hpp>
#include <kernel/trafo/standard/mapping.hpp>
#include <kernel/space/lagrange1/element.hpp>
#include <control/domain/parti_domain_control.hpp>

#include <array>
#include <map>
#include <set>
#include <sstream>

namespace wc
{
  using namespace FEAT;

  typedef std::vector<long long> Key;   // sorted vertex ids of an entity

  // global vertex dictionary of one run: quantised coordinates -> id. Dyadic coordinates (all meshes used here)
  // are represented exactly; chart adaption noise (1e-13) is far below the quantum 2^-30.
  struct VertexDict
  {
    std::map<std::array<long long, 3>, long long> ids;
    long long get(const double* x, int dim)
    {
      std::array<long long, 3> q{{0, 0, 0}};
      for(int i = 0; i < dim; ++i) q[size_t(i)] = std::llround(x[i] * 1073741824.0);
      auto it = ids.find(q);
      if(it != ids.end()) return it->second;
      long long id = (long long)ids.size();
      ids.emplace(q, id);
      return id;
    }
  };

  template<typename Mesh_, int d_>
  struct KeyCollector
  {
    static void run(const Mesh_& mesh, const std::vector<long long>& vid, std::vector<std::vector<Key>>& out)
    {
      KeyCollector<Mesh_, d_ - 1>::run(mesh, vid, out);
      const auto& idx = mesh.template get_index_set<d_, 0>();
      std::vector<Key>& v = out[size_t(d_)];
      v.resize(mesh.get_num_entities(d_));
      for(Index e = 0; e < mesh.get_num_entities(d_); ++e)
      {
        Key k;
        for(int j = 0; j < idx.num_indices; ++j) k.push_back(vid[idx(e, j)]);
        std::sort(k.begin(), k.end());
        v[e] = k;
      }
    }
  };
  template<typename Mesh_>
  struct KeyCollector<Mesh_, 0>
  {
    static void run(const Mesh_& mesh, const std::vector<long long>& vid, std::vector<std::vector<Key>>& out)
    {
      std::vector<Key>& v = out[0];
      v.resize(mesh.get_num_entities(0));
      for(Index e = 0; e < mesh.get_num_entities(0); ++e) v[e] = Key{vid[e]};
    }
  };

  // keys of all entities of a mesh, per dimension, by local index
  template<typename Mesh_>
  std::vector<std::vector<Key>> entity_keys(const Mesh_& mesh, VertexDict& dict)
  {
    constexpr int dim = Mesh_::shape_dim;
    const auto& vtx = mesh.get_vertex_set();
    std::vector<long long> vid(mesh.get_num_entities(0));
    for(Index i = 0; i < mesh.get_num_entities(0); ++i)
    {
      double x[3] = {0, 0, 0};
      for(int k = 0; k < Mesh_::world_dim; ++k) x[k] = double(vtx[i][k]);
      vid[i] = dict.get(x, Mesh_::world_dim);
    }
    std::vector<std::vector<Key>> out(size_t(dim) + 1);
    KeyCollector<Mesh_, dim>::run(mesh, vid, out);
    return out;
  }

  template<typename Part_, int d_>
  struct TargetCollector
  {
    static void run(const Part_& part, std::vector<std::vector<Index>>& out)
    {
      TargetCollector<Part_, d_ - 1>::run(part, out);
      const auto& t = part.template get_target_set<d_>();
      for(Index i = 0; i < t.get_num_entities(); ++i) out[size_t(d_)].push_back(t[i]);
    }
  };
  template<typename Part_>
  struct TargetCollector<Part_, 0>
  {
    static void run(const Part_& part, std::vector<std::vector<Index>>& out)
    {
      const auto& t = part.template get_target_set<0>();
      for(Index i = 0; i < t.get_num_entities(); ++i) out[0].push_back(t[i]);
    }
  };
  template<typename Mesh_>
  std::vector<std::vector<Index>> part_targets(const Geometry::MeshPart<Mesh_>& part)
  {
    std::vector<std::vector<Index>> out(size_t(Mesh_::shape_dim) + 1);
    TargetCollector<Geometry::MeshPart<Mesh_>, Mesh_::shape_dim>::run(part, out);
    return out;
  }

  // -----------------------------------------------------------------------------------------------
  struct WorldCfg
  {
    int n = 1;
    int mesh = 0;              // index into mesh table of the harness
    std::string mesh_file;
    std::string levels;        // desired level string
    int lvl_max = 0;
    int parti = 0;             // 0 default (extern/2lvl/naive), 1 naive, 2 genetic, 3 explicit assignment (single layer)
    int layers = 1;
    unsigned long long assign_seed = 0;
    int assign_level = 0;
    int rank_elems = 1;
    int adapt = 0;
    int weight_mode = 0;       // element weights handed to the partitioners through _compute_weights (0 = none)
  };

  // the real PartiDomainControl with one seam: an explicit, seeded cell->rank assignment injected through the
  // existing virtual _check_parti (a-priori partitioning), and access to the partitioner switches
  template<typename DomainLevel_>
  class SimPDC : public Control::Domain::PartiDomainControl<DomainLevel_>
  {
  public:
    typedef Control::Domain::PartiDomainControl<DomainLevel_> BaseClass;
    using typename BaseClass::Ancestor;
    using typename BaseClass::MeshNodeType;
    bool use_explicit = false;
    int explicit_level = 0;
    unsigned long long explicit_seed = 0;
    int explicit_mode = 0;
    int weight_mode = 0;              // 0: none (base class), 1: random 1..4, 2: one heavy cell, 3: some cells of weight zero
    unsigned long long weight_seed = 0;

    explicit SimPDC(const Dist::Comm& comm, bool multi) : BaseClass(comm, multi) {}

    std::size_t local_virtual_size() const { return this->_virt_levels.size(); }
    // what --parti-extern-name sets: only partitions of the mesh file with one of these names are considered
    void set_extern_names(const std::deque<String>& names) { this->_extern_parti_names = names; }

    void select_partitioners(bool ext, bool two, bool naive, bool genetic, double t_init, double t_mut, int rank_elems)
    {
      this->_allow_parti_extern = ext;
      this->_allow_parti_2level = two;
      this->_allow_parti_naive = naive;
      this->_allow_parti_genetic = genetic;
      this->_genetic_time_init = t_init;
      this->_genetic_time_mutate = t_mut;
      this->_required_elems_per_rank = rank_elems;
    }

  protected:
    // the documented extension point for element weights (the base class returns none)
    virtual std::vector<typename BaseClass::WeightType> _compute_weights(Ancestor& ancestor, const MeshNodeType& base_mesh_node) override
    {
      if(weight_mode == 0) return BaseClass::_compute_weights(ancestor, base_mesh_node);
      const Index ne = base_mesh_node.get_mesh()->get_num_elements();
      std::vector<typename BaseClass::WeightType> w(ne, typename BaseClass::WeightType(1));
      unsigned long long s = weight_seed * 6364136223846793005ull + 1442695040888963407ull;
      auto rnd = [&s](Index m) { s = s * 6364136223846793005ull + 1442695040888963407ull; return Index((s >> 33) % m); };
      if(weight_mode == 1) for(Index i = 0; i < ne; ++i) w[i] = typename BaseClass::WeightType(1 + rnd(4));
      else if(weight_mode == 2) w[rnd(ne)] = typename BaseClass::WeightType(100);
      else for(Index i = 0; i < ne; ++i) if(rnd(3) == 0) w[i] = typename BaseClass::WeightType(0);
      return w;
    }
#ifdef FEAT_HAVE_MPI
    virtual bool _check_parti(Ancestor& ancestor, const MeshNodeType& mesh_node, bool is_base_layer) override
    {
      if(!use_explicit) return BaseClass::_check_parti(ancestor, mesh_node, is_base_layer);
      // number of cells on the assignment level
      const Index factor = Index(Geometry::Intern::StandardRefinementTraits<typename BaseClass::ShapeType, BaseClass::ShapeType::dimension>::count);
      Index num_elems = mesh_node.get_mesh()->get_num_elements();
      int lvl = explicit_level;
      for(int l = 0; l < lvl; ++l) num_elems *= factor;
      const Index np = Index(ancestor.num_parts);
      while(num_elems < np) { num_elems *= factor; ++lvl; }
      // seeded assignment: every rank gets one cell, the rest is random / striped / one big + crumbs
      std::vector<Index> owner(num_elems);
      unsigned long long s = explicit_seed * 2862933555777941757ull + 3037000493ull;
      auto rnd = [&s](Index m) { s = s * 6364136223846793005ull + 1442695040888963407ull; return Index((s >> 33) % m); };
      std::vector<Index> perm(num_elems);
      for(Index i = 0; i < num_elems; ++i) perm[i] = i;
      for(Index i = num_elems; i > 1; --i) std::swap(perm[i - 1], perm[rnd(i)]);
      for(Index i = 0; i < num_elems; ++i)
      {
        Index r;
        if(i < np) r = i;
        else if(explicit_mode == 0) r = rnd(np);
        else if(explicit_mode == 1) r = 0;                  // one big patch + single-cell crumbs
        else r = (i * np) / num_elems;
        owner[perm[i]] = r;
      }
      Adjacency::Graph g(np, num_elems, num_elems);
      Index* ptr = g.get_domain_ptr(); Index* idx = g.get_image_idx();
      Index k = 0;
      for(Index r = 0; r < np; ++r) { ptr[r] = k; for(Index c = 0; c < num_elems; ++c) if(owner[c] == r) idx[k++] = c; }
      ptr[np] = k;
      ancestor.parti_apriori = true;
      ancestor.parti_found = true;
      ancestor.parti_info = "explicit seeded assignment";
      ancestor.parti_level = lvl;
      ancestor.parti_graph = std::move(g);
      return true;
    }
#endif
  };

  inline WorldCfg draw_cfg(int lmax_cap_2d, int lmax_cap_3d, bool allow_3d = true, bool allow_charts = false)
  {
    WorldCfg c;
    // 6..8: meshes whose boundary mesh parts are linked to charts (refinement projects new boundary vertices onto a circle)
    static const char* files[9] = {"unit-square-quad.xml", "unit-square-tria.xml", "l-shape-quad.xml", "unit-cube-hexa.xml", "l-shape-tria.xml", "unit-cube-tetra.xml",
      "unit_circle_quad_5.xml", "unit_circle_tria_4.xml", "square_circle_hole_quad_9.xml"};
    c.mesh = int(sim::cfg_weighted("mesh", {5, 3, 3, allow_3d ? 2 : 0, 2, allow_3d ? 1 : 0, allow_charts ? 2 : 0, allow_charts ? 2 : 0, allow_charts ? 1 : 0}));
    c.mesh_file = files[c.mesh];
    const bool is3d = (c.mesh == 3 || c.mesh == 5);
    static const int ns[16] = {1, 2, 2, 3, 3, 4, 4, 5, 6, 7, 8, 8, 9, 12, 15, 16};
    c.n = ns[sim::cfg_int("n_idx", 0, 15)];
    c.layers = 1;
    int want_layers = int(sim::cfg_weighted("layers", {6, 3, 1})) + 1;
    // divisor chain for multi-layered hierarchies
    std::vector<int> chain{c.n};
    while(int(chain.size()) < want_layers)
    {
      int cur = chain.back();
      std::vector<int> divs;
      for(int d = cur / 2; d >= 2; --d) if(cur % d == 0) divs.push_back(d);
      if(divs.empty()) break;
      int pick = int(sim::cfg_int(("div" + std::to_string(chain.size())).c_str(), 0, 7));
      chain.push_back(divs[size_t(pick) % divs.size()]);
    }
    c.layers = int(chain.size());
    int lmax_cap = is3d ? lmax_cap_3d : lmax_cap_2d;
    c.lvl_max = int(sim::cfg_int("lvl_max", 1, lmax_cap));
    std::vector<int> lv{c.lvl_max};
    for(int i = 1; i <= c.layers; ++i) lv.push_back(int(sim::cfg_int(("lvl" + std::to_string(i)).c_str(), 0, lv.back())));
    std::ostringstream os;
    os << lv[0];
    for(int i = 1; i < c.layers; ++i) os << " " << lv[size_t(i)] << ":" << chain[size_t(i)];
    os << " " << lv.back();
    c.levels = os.str();
    c.parti = int(sim::cfg_weighted("parti", {4, 2, 2, 3}));
    if(c.parti == 3 && c.layers > 1) c.parti = 0;
    c.assign_seed = (unsigned long long)sim::cfg_int("assign_seed", 0, 1 << 30);
    c.assign_level = int(sim::cfg_int("assign_level", 0, is3d ? 1 : 2));
    c.adapt = int(sim::cfg_int("assign_mode", 0, 2));
    c.rank_elems = int(sim::cfg_weighted("rank_elems", {3, 1, 1})) == 0 ? 1 : int(sim::cfg_int("rank_elems_v", 2, 4));
    c.weight_mode = int(sim::cfg_weighted("elem_weights", {2, 1, 1, 1}));
    return c;
  }

}
