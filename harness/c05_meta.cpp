// C05 / W3: meta containers. (a) Power/Tuple vectors (also nested) written in binary mode into a SimFS file through
// SimStreamBuf (seeded chunking), several back-to-back in one file, read back into fresh or pre-filled objects.
// (b) Meta matrices (PowerDiag/PowerCol/PowerRow/PowerFull/SaddlePoint/TupleDiag of CSR blocks, every block different)
// written with write_out(mode, filename): one master file that lists one file per block. These functions open their files
// by name (std::fstream), so this part runs against the real file system in a private tmpfs directory - no chunking, no
// faults - and is removed after the run. Oracle: reference copy of every block taken before the original is destroyed;
// block k read back must be block k written (dimensions, pattern, values), binary modes bit-identical, MatrixMarket to
// the printed precision. (c) Plain containers through the file-name overloads.
#include "runner.hpp"
#include "simfs/simstream.hpp"

#include <kernel/runtime.hpp>
#include <kernel/lafem/dense_vector.hpp>
#include <kernel/lafem/dense_vector_blocked.hpp>
#include <kernel/lafem/sparse_matrix_csr.hpp>
#include <kernel/lafem/power_vector.hpp>
#include <kernel/lafem/tuple_vector.hpp>
#include <kernel/lafem/power_diag_matrix.hpp>
#include <kernel/lafem/power_col_matrix.hpp>
#include <kernel/lafem/power_row_matrix.hpp>
#include <kernel/lafem/power_full_matrix.hpp>
#include <kernel/lafem/saddle_point_matrix.hpp>
#include <kernel/lafem/tuple_diag_matrix.hpp>

#include <dirent.h>
#include <sys/stat.h>
#include <unistd.h>
#include <iostream>
#include <utility>

using namespace FEAT;
using namespace FEAT::LAFEM;
using simfs::Bytes;

namespace
{
  struct Counters { uint64_t vec_roundtrips = 0, mat_roundtrips = 0, blocks = 0, files = 0, bytes = 0, empty_blocks = 0; } CNT;

  struct Gen
  {
    uint64_t s;
    explicit Gen(uint64_t seed) : s(seed * 0x9E3779B97F4A7C15ull + 77) {}
    uint64_t next() { s ^= s << 13; s ^= s >> 7; s ^= s << 17; return s; }
    Index idx(Index n) { return n == 0 ? 0 : Index(next() % n); }
    double val() { long k = long(next() % 2000000ull) - 1000000; if(k == 0) k = 3; return double(k) / 8.0; }
  };

  typedef DenseVector<double, Index> DV;
  typedef DenseVectorBlocked<double, Index, 2> DVB;
  typedef SparseMatrixCSR<double, Index> Csr;

  // ---- reference copies
  struct VRef { std::vector<double> v; };
  struct MRef { Index rows = 0, cols = 0; std::vector<Index> rp, ci; std::vector<double> v; };

  void ref_of(const DV& x, std::vector<VRef>& out) { VRef r; for(Index i = 0; i < x.size(); ++i) r.v.push_back(x(i)); out.push_back(std::move(r)); }
  void ref_of(const DVB& x, std::vector<VRef>& out) { VRef r; for(Index i = 0; i < x.size(); ++i) { r.v.push_back(x(i)[0]); r.v.push_back(x(i)[1]); } out.push_back(std::move(r)); }
  template<typename S_, int n_> void ref_of(const PowerVector<S_, n_>& x, std::vector<VRef>& out);
  template<typename F_, typename... R_> void ref_of(const TupleVector<F_, R_...>& x, std::vector<VRef>& out);
  template<typename S_, int n_> void ref_of(const PowerVector<S_, n_>& x, std::vector<VRef>& out)
  {
    ref_of(x.first(), out);
    if constexpr(n_ > 1) ref_of(x.rest(), out);
  }
  template<typename F_, typename... R_> void ref_of(const TupleVector<F_, R_...>& x, std::vector<VRef>& out)
  {
    ref_of(x.first(), out);
    if constexpr(sizeof...(R_) > 0) ref_of(x.rest(), out);
  }

  MRef ref_of(const Csr& m)
  {
    MRef r; r.rows = m.rows(); r.cols = m.columns();
    if(m.rows() > 0 || m.used_elements() > 0) for(Index i = 0; i <= m.rows(); ++i) r.rp.push_back(m.row_ptr()[i]);
    for(Index i = 0; i < m.used_elements(); ++i) { r.ci.push_back(m.col_ind()[i]); r.v.push_back(m.val()[i]); }
    return r;
  }

  void compare(const std::vector<VRef>& a, const std::vector<VRef>& b, const std::string& what)
  {
    if(a.size() != b.size()) sim::fail("LAYOUT", what + ": number of components differs");
    for(size_t k = 0; k < a.size(); ++k)
    {
      if(a[k].v.size() != b[k].v.size()) sim::fail("DIMENSIONS", what + ": component " + std::to_string(k) + " has " + std::to_string(b[k].v.size()) + " values after read-back, written " + std::to_string(a[k].v.size()));
      for(size_t i = 0; i < a[k].v.size(); ++i) if(a[k].v[i] != b[k].v[i]) { char buf[160]; snprintf(buf, sizeof(buf), ": component %zu entry %zu: wrote %.17g read %.17g", k, i, a[k].v[i], b[k].v[i]); sim::fail("VALUES_BINARY", what + buf); }
    }
  }
  void compare(const MRef& a, const MRef& b, bool text, const std::string& what)
  {
    if(a.rows != b.rows || a.cols != b.cols || a.v.size() != b.v.size())
      sim::fail("DIMENSIONS", what + ": wrote " + std::to_string(a.rows) + "x" + std::to_string(a.cols) + " with " + std::to_string(a.v.size()) + " entries, read back " + std::to_string(b.rows) + "x" + std::to_string(b.cols) + " with " + std::to_string(b.v.size()));
    if(a.rp != b.rp) sim::fail("LAYOUT", what + ": row pointers differ after read-back");
    if(a.ci != b.ci) sim::fail("LAYOUT", what + ": column indices differ after read-back");
    for(size_t i = 0; i < a.v.size(); ++i)
    {
      const bool ok = text ? (std::abs(a.v[i] - b.v[i]) <= 1e-6 * std::abs(a.v[i])) : (a.v[i] == b.v[i]);
      if(!ok) { char buf[160]; snprintf(buf, sizeof(buf), ": entry %zu: wrote %.17g read %.17g", i, a.v[i], b.v[i]); sim::fail(text ? "VALUES_TEXT" : "VALUES_BINARY", what + buf); }
    }
  }

  // ---- generators
  DV make_dv(Gen& g, Index n) { DV v(n); for(Index i = 0; i < n; ++i) v(i, g.val()); return v; }
  DVB make_dvb(Gen& g, Index n) { DVB v(n); for(Index i = 0; i < n; ++i) { Tiny::Vector<double, 2> t; t[0] = g.val(); t[1] = g.val(); v(i, t); } return v; }
  void fill(DV& v, Gen& g, Index n) { v = make_dv(g, n); }
  void fill(DVB& v, Gen& g, Index n) { v = make_dvb(g, n); }
  template<typename S_, int n_> void fill(PowerVector<S_, n_>& x, Gen& g, Index n);
  template<typename F_, typename... R_> void fill(TupleVector<F_, R_...>& x, Gen& g, Index n);
  // every component gets its own length (0 now and then)
  Index vary(Gen& g, Index n) { const Index k = g.idx(6); return k == 0 ? Index(0) : (k == 1 ? n : Index(1) + g.idx(n + 3)); }
  template<typename S_, int n_> void fill(PowerVector<S_, n_>& x, Gen& g, Index n)
  {
    fill(x.first(), g, n);   // the blocks of a power vector have one common length
    if constexpr(n_ > 1) fill(x.rest(), g, n);
  }
  template<typename F_, typename... R_> void fill(TupleVector<F_, R_...>& x, Gen& g, Index n)
  {
    fill(x.first(), g, vary(g, n));
    if constexpr(sizeof...(R_) > 0) fill(x.rest(), g, n);
  }

  Csr make_csr(Gen& g, Index rows, Index cols, int density)
  {
    std::vector<Index> rp(1, 0), ci; std::vector<double> v;
    for(Index r = 0; r < rows; ++r)
    {
      Index cnt = density == 0 ? Index(0) : g.idx(std::min<Index>(cols, Index(density)) + 1);
      std::set<Index> cs; while(cs.size() < cnt) cs.insert(g.idx(cols));
      for(Index c : cs) { ci.push_back(c); v.push_back(g.val()); }
      rp.push_back(Index(ci.size()));
    }
    if(ci.empty()) ++CNT.empty_blocks;
    Csr m(rows, cols, Index(ci.size()));
    for(Index r = 0; r <= rows; ++r) m.row_ptr()[r] = rp[r];
    for(Index i = 0; i < Index(ci.size()); ++i) { m.col_ind()[i] = ci[i]; m.val()[i] = v[i]; }
    return m;
  }

  // ---- (a) meta vectors through streams
  template<typename V_>
  void vector_roundtrip(Gen& g, const char* kind, Index n, size_t wchunk, size_t rchunk, bool varychunk)
  {
    const size_t count = 1 + size_t(g.idx(3));
    std::vector<std::vector<VRef>> refs(count);
    Bytes file;
    {
      simfs::SimStreamBuf sb(file, wchunk, varychunk);
      std::ostream os(&sb);
      for(size_t k = 0; k < count; ++k)
      {
        V_ x; fill(x, g, n);
        ref_of(x, refs[k]);
        x.write_out(FileMode::fm_binary, os);
      }
      os.flush();
      if(!os.good()) sim::fail("WRITE_FAILED", std::string(kind) + ": stream not good after write_out");
    }
    CNT.bytes += file.size();
    simfs::SimStreamBuf sb(file, rchunk, varychunk);
    std::istream is(&sb);
    for(size_t k = 0; k < count; ++k)
    {
      V_ back;
      if(g.idx(3) == 0) fill(back, g, n + 2);   // read into an object that already holds other data
      back.read_from(FileMode::fm_binary, is);
      std::vector<VRef> got; ref_of(back, got);
      compare(refs[k], got, std::string(kind) + " object " + std::to_string(k) + " of " + std::to_string(count) + " in one file");
      ++CNT.vec_roundtrips;
    }
    if(is.peek() != std::char_traits<char>::eof()) sim::fail("LAYOUT", std::string(kind) + ": the readers left bytes of the file unread");
  }

  // ---- (b) meta matrices through named files
  std::string g_dir;
  void make_dir()
  {
    const char* base = ::access("/dev/shm", W_OK) == 0 ? "/dev/shm" : (getenv("TMPDIR") ? getenv("TMPDIR") : "/tmp");
    g_dir = std::string(base) + "/feat3sim_c05_" + std::to_string(long(getpid()));
    ::mkdir(g_dir.c_str(), 0700);
  }
  void clean_dir()
  {
    if(g_dir.empty()) return;
    if(DIR* d = ::opendir(g_dir.c_str()))
    {
      while(dirent* e = ::readdir(d)) { if(e->d_name[0] == '.' || std::string(e->d_name) == "out.d") continue; ++CNT.files; ::unlink((g_dir + "/" + e->d_name).c_str()); }
      ::closedir(d);
    }
    const std::string sub = g_dir + "/out.d";
    if(DIR* d = ::opendir(sub.c_str()))
    {
      while(dirent* e = ::readdir(d)) { if(e->d_name[0] == '.') continue; ++CNT.files; ::unlink((sub + "/" + e->d_name).c_str()); }
      ::closedir(d);
      ::rmdir(sub.c_str());
    }
  }
  struct DirGuard { ~DirGuard() { clean_dir(); if(!g_dir.empty()) ::rmdir(g_dir.c_str()); } };

  struct ModeSpec { FileMode mode; bool text; const char* name; const char* suffix; };
  const ModeSpec MODES[3] = {{FileMode::fm_mtx, true, "mtx", ".mtx"}, {FileMode::fm_csr, false, "csr", ".csr"}, {FileMode::fm_binary, false, "binary", ".bin"}};

  // block visitors: f(block reference, block row, block column)
  template<typename S_, int n_, typename F_> void visit(PowerDiagMatrix<S_, n_>& m, F_&& f, int at = 0) { f(m.first(), at, at); if constexpr(n_ > 1) visit(m.rest(), f, at + 1); }
  template<typename S_, int n_, typename F_> void visit(PowerColMatrix<S_, n_>& m, F_&& f, int at = 0, int col = 0) { f(m.first(), at, col); if constexpr(n_ > 1) visit(m.rest(), f, at + 1, col); }
  template<typename S_, int n_, typename F_> void visit(PowerRowMatrix<S_, n_>& m, F_&& f, int at = 0, int row = 0) { f(m.first(), row, at); if constexpr(n_ > 1) visit(m.rest(), f, at + 1, row); }
  template<typename S_, int w_, int h_, typename F_> void visit(PowerFullMatrix<S_, w_, h_>& m, F_&& f)
  {
    visit(m.get_container(), [&](PowerRowMatrix<S_, w_>& row, int r, int) { visit(row, f, 0, r); });
  }
  template<typename A_, typename B_, typename D_, typename F_> void visit(SaddlePointMatrix<A_, B_, D_>& m, F_&& f)
  {
    visit(m.block_a(), [&](Csr& b, int r, int c) { f(b, r, c); });
    visit(m.block_b(), [&](Csr& b, int r, int c) { f(b, r, 100 + c); });
    visit(m.block_d(), [&](Csr& b, int r, int c) { f(b, 100 + r, c); });
  }
  template<typename First_, typename... Rest_, typename F_> void visit(TupleDiagMatrix<First_, Rest_...>& m, F_&& f, int at = 0) { f(m.first(), at, at); if constexpr(sizeof...(Rest_) > 0) visit(m.rest(), f, at + 1); }

  // block dimensions: block row r has rdim[r] rows, block column c has cdim[c] columns (+100: the second group of a saddle point system)
  struct Dims
  {
    std::map<int, Index> rd, cd; Gen* g; Index cap;
    Index rows(int r) { auto it = rd.find(r); if(it == rd.end()) it = rd.emplace(r, Index(1) + g->idx(cap)).first; return it->second; }
    Index cols(int c) { auto it = cd.find(c); if(it == cd.end()) it = cd.emplace(c, Index(1) + g->idx(cap)).first; return it->second; }
  };

  template<typename M_>
  void matrix_roundtrip(Gen& g, const char* kind, bool square_diag, Index cap, int density, bool saddle = false)
  {
    const ModeSpec& ms = MODES[g.idx(3)];
    static const char* names[4] = {"m", "matrix_a", "sys.level3", "A-1"};
    // every fourth time a file name without an extension in a sub-directory whose name contains a dot: the master file
    // lists the block files relative to its own directory, and the block names are derived from the master's name
    const bool bare = g.idx(4) == 0;
    if(bare) { ::mkdir((g_dir + "/out.d").c_str(), 0700); sim::probe("meta_matrix_file_without_extension_in_dotted_directory"); }
    const std::string file = bare ? g_dir + "/out.d/" + names[g.idx(4)] : g_dir + "/" + names[g.idx(4)] + ms.suffix;
    std::vector<MRef> refs; std::vector<std::pair<int, int>> where;
    {
      M_ m;
      Dims dims; dims.g = &g; dims.cap = cap;
      visit(m, [&](Csr& b, int r, int c)
      {
        // diagonal meta matrices: every block has its own shape; a saddle point system shares the velocity/pressure sizes
        Index nr, nc;
        if(square_diag && !saddle) { nr = Index(1) + g.idx(cap); nc = g.idx(3) == 0 ? nr : Index(1) + g.idx(cap); }
        else if(saddle)
        {
          const Index nv = dims.rows(0), np = dims.rows(100);
          if(r < 100 && c < 100) { nr = nv; nc = nv; } else if(c >= 100) { nr = nv; nc = np; } else { nr = np; nc = nv; }
        }
        else { nr = dims.rows(r); nc = dims.cols(c); }
        b = make_csr(g, nr, nc, g.idx(5) == 0 ? 0 : density);
        refs.push_back(ref_of(b)); where.emplace_back(r, c);
        ++CNT.blocks;
      });
      m.write_out(ms.mode, String(file));
    }
    M_ back;
    if(g.idx(2) == 0) back.read_from(ms.mode, String(file));
    else { M_ tmp(ms.mode, String(file)); back = std::move(tmp); }
    size_t k = 0;
    visit(back, [&](Csr& b, int r, int c)
    {
      if(k >= refs.size() || where[k] != std::make_pair(r, c)) sim::fail("INFRA", "block visiting order changed");
      compare(refs[k], ref_of(b), ms.text, std::string(kind) + " mode " + ms.name + ", block (" + std::to_string(r % 100) + "," + std::to_string(c % 100) + ")" + (r >= 100 || c >= 100 ? " of the off-diagonal part" : "") + " [block " + std::to_string(k) + " of " + std::to_string(refs.size()) + "]");
      ++k;
    });
    ++CNT.mat_roundtrips;
    clean_dir();
  }

  // ---- (c) plain containers through the file-name overloads
  void named_plain(Gen& g, Index n, int density)
  {
    {
      static const FileMode vm[4] = {FileMode::fm_binary, FileMode::fm_dv, FileMode::fm_mtx, FileMode::fm_exp};
      const size_t mi = size_t(g.idx(4));
      DV v = make_dv(g, n);
      std::vector<VRef> a, b; ref_of(v, a);
      const std::string file = g_dir + "/vec.dat";
      v.write_out(vm[mi], String(file));
      DV back;
      if(g.idx(2)) back.read_from(vm[mi], String(file)); else { DV t(vm[mi], String(file)); back = std::move(t); }
      ref_of(back, b);
      if(mi < 2) compare(a, b, "DenseVector by file name");
      else
      {
        if(a[0].v.size() != b[0].v.size()) sim::fail("DIMENSIONS", "DenseVector by file name (text mode): length changed");
        for(size_t i = 0; i < a[0].v.size(); ++i) if(!(std::abs(a[0].v[i] - b[0].v[i]) <= 1e-6 * std::abs(a[0].v[i]))) sim::fail("VALUES_TEXT", "DenseVector by file name (text mode): value changed");
      }
      ++CNT.vec_roundtrips;
    }
    {
      const ModeSpec& ms = MODES[g.idx(3)];
      Csr m = make_csr(g, Index(1) + g.idx(n + 1), Index(1) + g.idx(n + 1), density);
      MRef a = ref_of(m);
      const std::string file = g_dir + "/single" + ms.suffix;
      m.write_out(ms.mode, String(file));
      Csr back;
      if(g.idx(2)) back.read_from(ms.mode, String(file)); else { Csr t(ms.mode, String(file)); back = std::move(t); }
      compare(a, ref_of(back), ms.text, std::string("SparseMatrixCSR by file name, mode ") + ms.name);
      ++CNT.mat_roundtrips;
    }
    clean_dir();
  }

  typedef PowerDiagMatrix<Csr, 2> PD2;
  typedef PowerColMatrix<Csr, 2> PC2;
  typedef PowerRowMatrix<Csr, 2> PR2;
}

HarnessInfo harness_info() { return {"C05", "c05_meta", 4000000}; }
void harness_process_init(int argc, char** argv) { Runtime::initialize(argc, argv); }

std::string harness_run()
{
  sim::pthread_model_reset();
  sim::clock_reset();
  CNT = Counters();
  const int kind = int(sim::cfg_int("kind", 0, 15));
  const Index n = Index(sim::cfg_int("n", 0, 20));
  const Index cap = Index(sim::cfg_int("block_cap", 1, 12));
  const int density = int(sim::cfg_int("density", 0, 4));
  const uint64_t gseed = uint64_t(sim::cfg_int("gen", 0, 1 << 30));
  const size_t wchunk = size_t(sim::cfg_int("wchunk", 1, 64)), rchunk = size_t(sim::cfg_int("rchunk", 1, 64));
  const bool varychunk = sim::cfg_int("vary_chunks", 0, 1) != 0;
  sim::spawn("io", [=]() {
    Gen g(gseed);
    if(g_dir.empty()) make_dir();
    DirGuard guard;
    ::mkdir(g_dir.c_str(), 0700);
    switch(kind)
    {
    case 0: vector_roundtrip<PowerVector<DV, 1>>(g, "PowerVector<DenseVector,1>", n, wchunk, rchunk, varychunk); break;
    case 1: vector_roundtrip<PowerVector<DV, 3>>(g, "PowerVector<DenseVector,3>", n, wchunk, rchunk, varychunk); break;
    case 2: vector_roundtrip<TupleVector<DV, DVB>>(g, "TupleVector<DenseVector,DenseVectorBlocked>", n, wchunk, rchunk, varychunk); break;
    case 3: vector_roundtrip<TupleVector<PowerVector<DV, 2>, DV>>(g, "TupleVector<PowerVector<DenseVector,2>,DenseVector>", n, wchunk, rchunk, varychunk); break;
    case 4: vector_roundtrip<TupleVector<DV, DVB, DV>>(g, "TupleVector<DenseVector,DenseVectorBlocked,DenseVector>", n, wchunk, rchunk, varychunk); break;
    case 5: vector_roundtrip<PowerVector<TupleVector<DVB, DV>, 2>>(g, "PowerVector<TupleVector<DenseVectorBlocked,DenseVector>,2>", n, wchunk, rchunk, varychunk); break;
    case 6: vector_roundtrip<TupleVector<TupleVector<DVB, DV>, TupleVector<DV, DV>>>(g, "TupleVector<TupleVector<..>,TupleVector<..>>", n, wchunk, rchunk, varychunk); break;
    case 7: matrix_roundtrip<PowerDiagMatrix<Csr, 2>>(g, "PowerDiagMatrix<CSR,2>", true, cap, density); break;
    case 8: matrix_roundtrip<PowerDiagMatrix<Csr, 3>>(g, "PowerDiagMatrix<CSR,3>", true, cap, density); break;
    case 9: matrix_roundtrip<PowerDiagMatrix<Csr, 4>>(g, "PowerDiagMatrix<CSR,4>", true, cap, density); break;
    case 10: matrix_roundtrip<PowerColMatrix<Csr, 3>>(g, "PowerColMatrix<CSR,3>", false, cap, density); break;
    case 11: matrix_roundtrip<PowerRowMatrix<Csr, 3>>(g, "PowerRowMatrix<CSR,3>", false, cap, density); break;
    case 12: matrix_roundtrip<PowerFullMatrix<Csr, 2, 3>>(g, "PowerFullMatrix<CSR,2,3>", false, cap, density); break;
    case 13: matrix_roundtrip<SaddlePointMatrix<PD2, PC2, PR2>>(g, "SaddlePointMatrix<PowerDiag,PowerCol,PowerRow>", true, cap, density, true); break;
    case 14: matrix_roundtrip<TupleDiagMatrix<Csr, Csr, Csr>>(g, "TupleDiagMatrix<CSR,CSR,CSR>", true, cap, density); break;
    default: named_plain(g, n, density); break;
    }
  });
  sim::run_go();
  if(MemoryPool::allocated_memory() != 0) sim::fail("POOL_NOT_EMPTY", "memory pool not empty after all containers of the run were destroyed");
  if(CNT.empty_blocks) sim::probe("matrix_block_without_entries", CNT.empty_blocks);
  return "{\"meta_vector_roundtrips\":" + std::to_string(CNT.vec_roundtrips) + ",\"meta_matrix_roundtrips\":" + std::to_string(CNT.mat_roundtrips) + ",\"matrix_blocks\":" + std::to_string(CNT.blocks) +
    ",\"real_files\":" + std::to_string(CNT.files) + ",\"bytes\":" + std::to_string(CNT.bytes) + "}";
}

int main(int argc, char** argv) { return harness_main(argc, argv); }
