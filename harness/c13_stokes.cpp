// C13 / tuple vectors (vector kind "tuple": blocked Q2 velocity x scalar Q1 pressure, saddle-point system):
// Control::StokesBlockedSystemLevel on n simulated ranks vs. one rank. The solver of the Stokes applications uses a
// patch-local ILU and is therefore partition dependent, so this harness checks the partition-independent operations
// only: sync_0 (exact, integer data) and sync_1 of tuple vectors through the system gate, the gate frequencies of both
// components, dot/norm2 of tuple vectors, and the saddle-point product (A u + B p, D u) against the one-rank product.
#include "world_common.hpp"

#include <kernel/analytic/lambda_function.hpp>
#include <kernel/assembly/interpolator.hpp>
#include <kernel/assembly/common_operators.hpp>
#include <kernel/assembly/domain_assembler_helpers.hpp>
#include <kernel/space/lagrange2/element.hpp>
#include <kernel/space/lagrange1/element.hpp>
#include <kernel/space/cro_rav_ran_tur/element.hpp>
#include <control/stokes_blocked.hpp>
#include <control/asm/slip_filter_asm.hpp>
#include <kernel/lafem/slip_filter.hpp>

#include <cmath>

using namespace FEAT;

namespace
{
  inline double h_int(long long key, int rank, int c) { return double(((unsigned long long)(key * 2654435761ll + rank * 40503ll + c * 977 + 12345) % 1048576ull)) - 524288.0; }
  inline double g_val(long long key, int salt, int c) { return double(((unsigned long long)(key * 1103515245ll + salt * 7919ll + c * 31 + 11) % 4096ull)) / 64.0 - 32.0; }

  struct RankOut
  {
    int rank = 0;
    std::vector<long long> vkeys, pkeys;
    std::vector<double> s0v, s0p, s1v, s1p, fv, fp, axv, axp;
    std::vector<double> slipv;   // a consistent velocity vector after the synchronised slip filter (whole boundary)
    std::vector<double> mf_sol, mf_rhs;   // pressure mean filter applied to consistent vectors
    std::vector<double> t3_s0v, t3_s0p, t3_s0q;   // sync_0 on a three-component tuple (velocity, pressure, pressure-like third field)
    std::vector<double> vcoord;  // velocity DOF coordinates (diagnostics)
    double dot = 0, norm2 = 0;
  };
  struct Shared { wc::VertexDict dict; std::vector<RankOut> a, b; bool slip_q2 = false; };
  Shared* SH = nullptr;
  struct Counters { uint64_t velo_dofs = 0, pres_dofs = 0, shared = 0, matvec = 0; } CNT;

  typedef Geometry::ConformalMesh<FEAT::Shape::Hypercube<2>> MeshType;
  typedef Trafo::Standard::Mapping<MeshType> TrafoType;
  typedef Space::Lagrange2::Element<TrafoType> SpaceVeloType;
#ifdef STOKES_PRES_CRRT
  // edge-based pressure space: its gate has other neighbours than the velocity gate (ranks that share only a vertex are
  // neighbours for Lagrange-2 but not for the edge DOFs), so the tuple gate has to pair mirrors of different rank lists
  typedef Space::CroRavRanTur::Element<TrafoType> SpacePresType;
#else
  typedef Space::Lagrange1::Element<TrafoType> SpacePresType;
#endif
  typedef Control::Domain::StokesDomainLevel<MeshType, TrafoType, SpaceVeloType, SpacePresType> DomainLevelType;
  typedef wc::SimPDC<DomainLevelType> DomainType;
  typedef Control::StokesBlockedSystemLevel<2, double, Index> SystemLevelType;
  typedef SystemLevelType::GlobalSystemVector GlobalSystemVector;
  typedef SystemLevelType::LocalSystemVector LocalSystemVector;

  template<typename Space_>
  std::vector<long long> dof_keys(const Space_& space)
  {
    auto fx = Analytic::create_lambda_function_scalar_2d([](double x, double) { return x; });
    auto fy = Analytic::create_lambda_function_scalar_2d([](double, double y) { return y; });
    LAFEM::DenseVector<double, Index> vx, vy;
    Assembly::Interpolator::project(vx, fx, space);
    Assembly::Interpolator::project(vy, fy, space);
    std::vector<long long> k(vx.size());
    for(Index i = 0; i < vx.size(); ++i) { double x[3] = {vx(i), vy(i), 0.0}; k[i] = SH->dict.get(x, 2); }
    return k;
  }

  void rank_body(int wrank, const wc::WorldCfg& cfg, bool reference, int ref_lvl, std::vector<RankOut>& outs)
  {
    Dist::Comm comm = Dist::Comm::world();
    DomainType domain(comm, false);
    if(reference) { domain.select_partitioners(true, true, true, false, 0, 0, 1); domain.set_desired_levels(ref_lvl, ref_lvl); }
    else
    {
      switch(cfg.parti)
      {
      case 0: domain.select_partitioners(true, true, true, false, 0, 0, cfg.rank_elems); break;
      case 1: case 2: domain.select_partitioners(false, false, true, false, 0, 0, cfg.rank_elems); break;
      case 3: domain.select_partitioners(false, false, true, false, 0, 0, 1);
        domain.use_explicit = true; domain.explicit_level = cfg.assign_level; domain.explicit_seed = cfg.assign_seed; domain.explicit_mode = cfg.adapt; break;
      }
      domain.set_desired_levels(cfg.lvl_max, cfg.lvl_max);
    }
    std::deque<String> files; files.push_back(String(cfg.mesh_file));
    domain.create(files, String("/repo/data/meshes"));
    domain.add_trafo_mesh_part_charts();
    RankOut& out = outs[size_t(wrank)];
    out.rank = wrank;

    DomainLevelType& lvl = *domain.front();
    SystemLevelType sys;
    const String cubature("auto-degree:5");
    lvl.domain_asm.compile_all_elements();
    sys.assemble_gates(domain.front());
    // A: blocked Laplace on the velocity space, B/D: gradient/divergence
    sys.assemble_velo_struct(lvl.space_velo);
    sys.matrix_a.local().format();
    Assembly::Common::LaplaceOperatorBlocked<2> lapl;
    Assembly::assemble_bilinear_operator_matrix_1(lvl.domain_asm, sys.matrix_a.local(), lapl, lvl.space_velo, cubature);
    sys.assemble_grad_div_matrices(lvl.domain_asm, lvl.space_velo, lvl.space_pres, cubature);
    sys.compile_system_matrix();

    out.vkeys = dof_keys(lvl.space_velo);
    out.pkeys = dof_keys(lvl.space_pres);
    const Index nv = Index(out.vkeys.size()), np = Index(out.pkeys.size());
    const auto& gate = sys.gate_sys;
    LocalSystemVector v0 = sys.matrix_sys.local().create_vector_r(), v1 = sys.matrix_sys.local().create_vector_r();
    for(Index d = 0; d < nv; ++d)
    {
      Tiny::Vector<double, 2> a, b;
      for(int c = 0; c < 2; ++c) { a[c] = h_int(out.vkeys[d], wrank, c); b[c] = g_val(out.vkeys[d], 3, c); }
      v0.template at<0>()(d, a); v1.template at<0>()(d, b);
    }
    for(Index d = 0; d < np; ++d) { v0.template at<1>()(d, h_int(out.pkeys[d], wrank, 7)); v1.template at<1>()(d, g_val(out.pkeys[d], 3, 7)); }
    gate.sync_0(v0);
    gate.sync_1(v1);
    for(Index d = 0; d < nv; ++d) for(int c = 0; c < 2; ++c) { out.s0v.push_back(v0.template at<0>()(d)[c]); out.s1v.push_back(v1.template at<0>()(d)[c]); out.fv.push_back(gate.get_freqs().template at<0>()(d)[c]); }
    for(Index d = 0; d < np; ++d) { out.s0p.push_back(v0.template at<1>()(d)); out.s1p.push_back(v1.template at<1>()(d)); out.fp.push_back(gate.get_freqs().template at<1>()(d)); }

    if(SH->slip_q2)
    {
      // slip filter for the Lagrange-2 velocity on the whole boundary, synchronised over the velocity gate. Only in the
      // pinned reproduction of the known finding (KNOWN_FINDINGS.txt): the Lagrange-2 slip filter is partition dependent by
      // construction - the vertex normals are not synchronised before they are interpolated to the edge DOFs
      LAFEM::SlipFilter<double, Index, 2> slip;
      Control::Asm::asm_slip_filter(slip, lvl, lvl.space_velo, String("*"));
      Control::Asm::sync_slip_filter(sys.gate_velo, slip);
      auto fv1 = sys.gate_velo.get_freqs().clone(LAFEM::CloneMode::Layout);
      for(Index d = 0; d < nv; ++d) { Tiny::Vector<double, 2> a; a[0] = g_val(out.vkeys[d], 7, 0); a[1] = g_val(out.vkeys[d], 7, 1); fv1(d, a); }
      slip.filter_def(fv1);
      for(Index d = 0; d < nv; ++d) { out.slipv.push_back(fv1(d)[0]); out.slipv.push_back(fv1(d)[1]); }
      {
        auto fx = Analytic::create_lambda_function_scalar_2d([](double x, double) { return x; });
        auto fy = Analytic::create_lambda_function_scalar_2d([](double, double y) { return y; });
        LAFEM::DenseVector<double, Index> vx, vy;
        Assembly::Interpolator::project(vx, fx, lvl.space_velo); Assembly::Interpolator::project(vy, fy, lvl.space_velo);
        for(Index d = 0; d < nv; ++d) { out.vcoord.push_back(vx(d)); out.vcoord.push_back(vy(d)); }
      }
    }
    {
      // three-component tuple (as in control/stokes_3field.hpp: velocity, pressure, third field): the tuple mirror hands a
      // running buffer offset from component to component - with two components the second offset is the only one. The
      // third field is a blocked one, so that a blocked component is gathered/scattered at a non-zero buffer offset
      typedef LAFEM::TupleVector<SystemLevelType::LocalVeloVector, SystemLevelType::LocalPresVector, SystemLevelType::LocalVeloVector> Vec3;
      typedef LAFEM::TupleMirror<SystemLevelType::VeloMirror, SystemLevelType::PresMirror, SystemLevelType::VeloMirror> Mir3;
      Global::Gate<Vec3, Mir3> gate3;
      Control::Asm::build_gate_tuple(gate3, sys.gate_velo, sys.gate_pres, sys.gate_velo);
      Vec3 w0;
      w0.template at<0>() = SystemLevelType::LocalVeloVector(nv); w0.template at<1>() = SystemLevelType::LocalPresVector(np); w0.template at<2>() = SystemLevelType::LocalVeloVector(nv);
      for(Index d = 0; d < nv; ++d)
      {
        Tiny::Vector<double, 2> a, b; a[0] = h_int(out.vkeys[d], wrank, 20); a[1] = h_int(out.vkeys[d], wrank, 21); b[0] = h_int(out.vkeys[d], wrank, 23); b[1] = h_int(out.vkeys[d], wrank, 24);
        w0.template at<0>()(d, a); w0.template at<2>()(d, b);
      }
      for(Index d = 0; d < np; ++d) w0.template at<1>()(d, h_int(out.pkeys[d], wrank, 22));
      gate3.sync_0(w0);
      for(Index d = 0; d < nv; ++d) { out.t3_s0v.push_back(w0.template at<0>()(d)[0]); out.t3_s0v.push_back(w0.template at<0>()(d)[1]); out.t3_s0q.push_back(w0.template at<2>()(d)[0]); out.t3_s0q.push_back(w0.template at<2>()(d)[1]); }
      for(Index d = 0; d < np; ++d) out.t3_s0p.push_back(w0.template at<1>()(d));
    }
    {
      // pressure mean filter as the Stokes system level with unit velocity / mean pressure filters assembles it (its own code,
      // not Asm::asm_mean_filter): applied to consistent pressure vectors, against the undecomposed filter
      Control::StokesBlockedUnitVeloMeanPresSystemLevel<2, double, Index> sysm;
      sysm.assemble_gates(domain.front());
      sysm.assemble_pressure_mean_filter(lvl.space_pres, cubature);
      SystemLevelType::LocalPresVector ps(np), pr(np);
      for(Index d = 0; d < np; ++d) { ps(d, g_val(out.pkeys[d], 31, 7)); pr(d, g_val(out.pkeys[d], 32, 7)); }
      sysm.filter_pres.local().filter_sol(ps);
      sysm.filter_pres.local().filter_rhs(pr);
      for(Index d = 0; d < np; ++d) { out.mf_sol.push_back(ps(d)); out.mf_rhs.push_back(pr(d)); }
    }
    GlobalSystemVector gx = sys.matrix_sys.create_vector_r(), gy = sys.matrix_sys.create_vector_r(), gr = sys.matrix_sys.create_vector_l();
    for(Index d = 0; d < nv; ++d)
    {
      Tiny::Vector<double, 2> a, b;
      for(int c = 0; c < 2; ++c) { a[c] = g_val(out.vkeys[d], 1, c); b[c] = g_val(out.vkeys[d], 2, c); }
      gx.local().template at<0>()(d, a); gy.local().template at<0>()(d, b);
    }
    for(Index d = 0; d < np; ++d) { gx.local().template at<1>()(d, g_val(out.pkeys[d], 1, 7)); gy.local().template at<1>()(d, g_val(out.pkeys[d], 2, 7)); }
    out.dot = gx.dot(gy);
    out.norm2 = gx.norm2();
    sys.matrix_sys.apply(gr, gx);
    for(Index d = 0; d < nv; ++d) for(int c = 0; c < 2; ++c) out.axv.push_back(gr.local().template at<0>()(d)[c]);
    for(Index d = 0; d < np; ++d) out.axp.push_back(gr.local().template at<1>()(d));
    comm.barrier();
  }

  bool close(double a, double b, double rel, double scale) { return std::abs(a - b) <= rel * scale; }

  void verify()
  {
    const std::vector<RankOut>& A = SH->a; const RankOut& B = SH->b[0];
    for(const RankOut& r : A) if(r.dot != A[0].dot || r.norm2 != A[0].norm2) sim::fail("GLOBAL_SCALAR_DIFFERS_ACROSS_RANKS", "a global reduction of tuple vectors delivered different bits to different ranks");
    if(!close(A[0].dot, B.dot, 1e-12, std::abs(B.dot) + 1e4) || !close(A[0].norm2, B.norm2, 1e-12, B.norm2 + 1)) sim::fail("DOT", "dot/norm2 of tuple vectors differ from the one-process values");
    std::map<long long, std::vector<int>> sv, sp;
    for(const RankOut& r : A) { for(long long k : r.vkeys) sv[k].push_back(r.rank); for(long long k : r.pkeys) sp[k].push_back(r.rank); }
    std::map<long long, size_t> bv, bp;
    for(size_t i = 0; i < B.vkeys.size(); ++i) bv[B.vkeys[i]] = i;
    for(size_t i = 0; i < B.pkeys.size(); ++i) bp[B.pkeys[i]] = i;
    double sav = 1e-300, sap = 1e-300;
    for(double x : B.axv) sav = std::max(sav, std::abs(x));
    for(double x : B.axp) sap = std::max(sap, std::abs(x));
    double smf = 1e-300, smr = 1e-300;
    for(double x : B.mf_sol) smf = std::max(smf, std::abs(x));
    for(double x : B.mf_rhs) smr = std::max(smr, std::abs(x));
    if(sv.size() != bv.size() || sp.size() != bp.size()) sim::fail("DOF_COVER", "the patches do not hold exactly the DOFs of the one-process discretisation");
    for(const RankOut& r : A)
    {
      for(size_t d = 0; d < r.vkeys.size(); ++d)
      {
        const std::vector<int>& S = sv[r.vkeys[d]];
        auto it = bv.find(r.vkeys[d]);
        if(it == bv.end()) sim::fail("DOF_KEY_UNKNOWN", "velocity DOF unknown to the one-process run");
        ++CNT.velo_dofs; if(S.size() > 1) ++CNT.shared;
        for(size_t c = 0; c < 2; ++c)
        {
          double e0 = 0; for(int q : S) e0 += h_int(r.vkeys[d], q, int(c));
          if(r.s0v[2 * d + c] != e0) sim::fail("SYNC0", "tuple sync_0, velocity component: got " + std::to_string(r.s0v[2 * d + c]) + ", exact sum is " + std::to_string(e0));
          { double e2 = 0, e3 = 0; for(int q : S) { e2 += h_int(r.vkeys[d], q, 20 + int(c)); e3 += h_int(r.vkeys[d], q, 23 + int(c)); }
            if(r.t3_s0v[2 * d + c] != e2) sim::fail("SYNC0_TUPLE3", "sync_0 of a three-component tuple, first component: got " + std::to_string(r.t3_s0v[2 * d + c]) + ", exact sum is " + std::to_string(e2));
            if(r.t3_s0q[2 * d + c] != e3) sim::fail("SYNC0_TUPLE3", "sync_0 of a three-component tuple, third (blocked) component: got " + std::to_string(r.t3_s0q[2 * d + c]) + ", exact sum is " + std::to_string(e3)); }
          double e1 = g_val(r.vkeys[d], 3, int(c));
          if(!close(r.s1v[2 * d + c], e1, 4e-16 * double(S.size() + 1), std::abs(e1) + 1)) sim::fail("SYNC1", "tuple sync_1 changed a consistent velocity value");
          if(!close(r.fv[2 * d + c], 1.0 / double(S.size()), 1e-15, 1.0)) sim::fail("GATE_FREQS", "wrong velocity frequency in the system gate");
          ++CNT.matvec;
          if(SH->slip_q2 && std::abs(r.slipv[2 * d + c] - B.slipv[2 * it->second + c]) > 1e-10) sim::fail("SLIP_FILTER_Q2", "slip-filtered Lagrange-2 velocity vector differs from the one-process result at the DOF (" + std::to_string(r.vcoord[2 * d]) + ", " + std::to_string(r.vcoord[2 * d + 1]) + ") shared by " + std::to_string(S.size()) + " rank(s): " + std::to_string(r.slipv[2 * d]) + "," + std::to_string(r.slipv[2 * d + 1]) + " vs " + std::to_string(B.slipv[2 * it->second]) + "," + std::to_string(B.slipv[2 * it->second + 1]) + " input " + std::to_string(g_val(r.vkeys[d], 7, 0)) + "," + std::to_string(g_val(r.vkeys[d], 7, 1)));
          if(!close(r.axv[2 * d + c], B.axv[2 * it->second + c], 1e-12, sav)) sim::fail("MATVEC", "saddle-point product, velocity part, differs from the one-process product: " + std::to_string(r.axv[2 * d + c]) + " vs " + std::to_string(B.axv[2 * it->second + c]));
        }
      }
      for(size_t d = 0; d < r.pkeys.size(); ++d)
      {
        const std::vector<int>& S = sp[r.pkeys[d]];
        auto it = bp.find(r.pkeys[d]);
        if(it == bp.end()) sim::fail("DOF_KEY_UNKNOWN", "pressure DOF unknown to the one-process run");
        ++CNT.pres_dofs;
        double e0 = 0; for(int q : S) e0 += h_int(r.pkeys[d], q, 7);
        if(r.s0p[d] != e0) sim::fail("SYNC0", "tuple sync_0, pressure component: got " + std::to_string(r.s0p[d]) + ", exact sum is " + std::to_string(e0));
        {
          double e2 = 0; for(int q : S) e2 += h_int(r.pkeys[d], q, 22);
          if(r.t3_s0p[d] != e2) sim::fail("SYNC0_TUPLE3", "sync_0 of a three-component tuple, second component: got " + std::to_string(r.t3_s0p[d]) + ", exact sum is " + std::to_string(e2));
        }
        double e1 = g_val(r.pkeys[d], 3, 7);
        if(!close(r.s1p[d], e1, 4e-16 * double(S.size() + 1), std::abs(e1) + 1)) sim::fail("SYNC1", "tuple sync_1 changed a consistent pressure value");
        if(!close(r.fp[d], 1.0 / double(S.size()), 1e-15, 1.0)) sim::fail("GATE_FREQS", "wrong pressure frequency in the system gate");
        ++CNT.matvec;
        if(!close(r.axp[d], B.axp[it->second], 1e-12, sap)) sim::fail("MATVEC", "saddle-point product, pressure part, differs from the one-process product");
        if(!close(r.mf_sol[d], B.mf_sol[it->second], 1e-11, smf) || !close(r.mf_rhs[d], B.mf_rhs[it->second], 1e-11, smr))
          sim::fail("MEAN_FILTER", "pressure mean filter of the Stokes system level applied to a consistent vector differs from the undecomposed filter: " + std::to_string(r.mf_sol[d]) + " / " + std::to_string(r.mf_rhs[d]) + " vs " + std::to_string(B.mf_sol[it->second]) + " / " + std::to_string(B.mf_rhs[it->second]));
      }
    }
  }
}

#ifdef STOKES_PRES_CRRT
HarnessInfo harness_info() { return {"C13", "c13_stokes_crrt", 60000000}; }
#else
HarnessInfo harness_info() { return {"C13", "c13_stokes", 60000000}; }
#endif
void harness_process_init(int argc, char** argv) { Runtime::initialize(argc, argv); }

std::string harness_run()
{
  sim::pthread_model_reset();
  sim::clock_reset();
  wc::WorldCfg w = sim::thorough() ? wc::draw_cfg(4, 2, false) : wc::draw_cfg(3, 2, false);
  if(w.mesh != 0 && w.mesh != 2) { w.mesh = 0; w.mesh_file = "unit-square-quad.xml"; }
  if(w.parti == 2) w.parti = 1;
  CNT = Counters();
  Shared sh; SH = &sh;
  // never drawn in exploration (weight 0); the pinned trace of the known finding sets it
  sh.slip_q2 = sim::cfg_fixed("slip_q2_known_finding", 0) == 1;
  sh.a.resize(size_t(w.n)); sh.b.resize(1);
  simmpi::world_begin(w.n, [w](int r) { rank_body(r, w, false, 0, SH->a); });
  sim::run_go();
  simmpi::world_end();
  // the n-rank run may have had to refine further than desired to get enough cells: the reference uses the level
  // on which the patches actually live (number of global velocity DOFs decides)
  int ref_lvl = w.lvl_max;
  {
    std::set<long long> all; for(const RankOut& r : sh.a) all.insert(r.pkeys.begin(), r.pkeys.end());
    // unit square: (2^l+1)^2 vertices, l-shape: 3*4^l cells -> vertices 3*4^l + 2*2^(l+1) + 1
    for(int l = 0; l <= 8; ++l)
    {
      long n1 = (1l << l) + 1;
      long verts = (w.mesh == 0) ? n1 * n1 : 3 * (1l << (2 * l)) + 4 * (1l << l) + 1;
#ifdef STOKES_PRES_CRRT
      const long cells = (w.mesh == 0 ? 1l : 3l) * (1l << (2 * l));
      verts = verts + cells - 1;   // number of edges of a simply connected planar mesh (Euler)
#endif
      if(long(all.size()) == verts) { ref_lvl = l; break; }
    }
  }
  simmpi::world_begin(1, [w, ref_lvl](int r) { rank_body(r, w, true, ref_lvl, SH->b); });
  sim::run_go();
  simmpi::world_end();
  verify();
  SH = nullptr;
  return "{\"velocity_dofs\":" + std::to_string(CNT.velo_dofs) + ",\"pressure_dofs\":" + std::to_string(CNT.pres_dofs) + ",\"shared_velocity_dofs\":" + std::to_string(CNT.shared) + ",\"matvec_entries\":" + std::to_string(CNT.matvec) + "}";
}

int main(int argc, char** argv) { return harness_main(argc, argv); }
