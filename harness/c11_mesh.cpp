// C11 (mesh files): writer -> simulated disk -> reader. Clean pipeline: write/parse/write round trip through
// SimStreamBuf with seeded chunking; faulted pipeline: 1-3 storage fault ops hit the stored bytes between writer
// and reader (crash-truncation, torn/dropped/duplicated blocks, bit flips, lost/duplicated records, corrupted
// counts and indices) and the reader may see an early EOF. Oracles: DESIGN.md 5.2.
#include "runner.hpp"
#include "simfs/simstream.hpp"

#include <kernel/runtime.hpp>
#include <kernel/geometry/conformal_mesh.hpp>
#include <kernel/geometry/mesh_node.hpp>
#include <kernel/geometry/mesh_atlas.hpp>
#include <kernel/geometry/mesh_file_reader.hpp>
#include <kernel/geometry/mesh_file_writer.hpp>
#include <kernel/geometry/partition_set.hpp>
#include <kernel/geometry/common_factories.hpp>
#include <kernel/geometry/boundary_factory.hpp>
#include <kernel/util/exception.hpp>
#include <kernel/util/xml_scanner.hpp>

#include <algorithm>
#include <dirent.h>
#include <fstream>
#include <iostream>
#include <map>
#include <set>
#include <sstream>

using namespace FEAT;
using simfs::Bytes;

namespace
{
  struct FileEntry { std::string name; std::string type; Bytes bytes; Bytes charts; std::string chart_name; };   // charts: companion chart file parsed first (multi-file meshes)
  std::vector<FileEntry> g_files[5];   // quad, tria, hexa, tetra, line (generated only)
  const char* g_types[5] = {"conformal:hypercube:2:2", "conformal:simplex:2:2", "conformal:hypercube:3:3", "conformal:simplex:3:3", "conformal:hypercube:1:1"};

  struct Counters { uint64_t clean_roundtrips = 0, faulted = 0, rejected = 0, accepted = 0, must_reject = 0, bytes = 0, refills = 0, short_reads = 0, skipped_huge = 0, eof_early = 0; } CNT;

  enum Outcome { PARSED = 0, REJECTED = 1 };

  struct Parsed
  {
    int outcome = PARSED;
    std::string what;
  };

  template<typename Mesh_>
  struct Kit
  {
    typedef Mesh_ MeshType;
    typedef Geometry::RootMeshNode<MeshType> NodeType;
    typedef Geometry::MeshAtlas<MeshType> AtlasType;
    static constexpr int dim = MeshType::shape_dim;

    struct Doc
    {
      std::unique_ptr<AtlasType> atlas;
      std::unique_ptr<NodeType> node;
      Geometry::PartitionSet parts;
    };

    // parse bytes through the simulated stream layer; documented exception families = rejection
    static Parsed parse(Bytes& bytes, Doc& doc, size_t chunk, bool vary, size_t eof_limit, Bytes* charts = nullptr)
    {
      Parsed r;
      simfs::SimStreamBuf sb(bytes, chunk, vary);
      sb.eof_limit = eof_limit;
      std::istream is(&sb);
      Bytes no_charts;
      simfs::SimStreamBuf sbc(charts ? *charts : no_charts, chunk, vary);
      std::istream isc(&sbc);
      doc.atlas.reset(new AtlasType);
      doc.node = NodeType::make_unique(nullptr, doc.atlas.get());
      try
      {
        Geometry::MeshFileReader reader;
        if(charts) reader.add_stream(isc);   // multi-file mesh: the chart file is parsed first
        reader.add_stream(is);
        reader.parse(*doc.node, *doc.atlas, &doc.parts);
      }
      catch(const Xml::Error& e) { r.outcome = REJECTED; r.what = std::string("Xml::Error: ") + e.what(); }
      catch(const FEAT::Exception& e) { r.outcome = REJECTED; r.what = std::string("FEAT::Exception: ") + e.what(); }
      // anything else (std::out_of_range, std::bad_alloc, std::length_error, ...) is not a documented outcome
      catch(const std::exception& e) { sim::fail("FOREIGN_EXCEPTION", std::string("parser left with an undocumented exception: ") + e.what()); }
      CNT.refills += sb.refills; CNT.short_reads += sb.short_reads;
      if(sb.eof_refills > 1000) sim::fail("HANG", "parser kept reading at end of file (" + std::to_string(sb.eof_refills) + " refills at EOF)");
      return r;
    }

    static void write(Doc& doc, Bytes& out, size_t chunk, bool vary)
    {
      simfs::SimStreamBuf sb(out, chunk, vary);
      std::ostream os(&sb);
      Geometry::MeshFileWriter writer(os);
      writer.write(doc.node.get(), doc.atlas.get(), &doc.parts);
      os.flush();
    }

    template<int d_>
    static void cmp_index_sets(const MeshType& a, const MeshType& b, const std::string& where)
    {
      if constexpr(d_ >= 1)
      {
        const auto& ia = a.template get_index_set<d_, 0>(); const auto& ib = b.template get_index_set<d_, 0>();
        if(ia.get_num_entities() != ib.get_num_entities()) sim::fail("ROUNDTRIP_TOPOLOGY", where + ": entity count of dimension " + std::to_string(d_) + " changed");
        for(Index e = 0; e < ia.get_num_entities(); ++e) for(int j = 0; j < ia.num_indices; ++j)
          if(ia(e, j) != ib(e, j)) sim::fail("ROUNDTRIP_TOPOLOGY", where + ": vertex indices of entity " + std::to_string(e) + " of dimension " + std::to_string(d_) + " changed");
        cmp_index_sets<d_ - 1>(a, b, where);
      }
    }

    template<int d_>
    static void cmp_targets(const Geometry::MeshPart<MeshType>& a, const Geometry::MeshPart<MeshType>& b, const std::string& where)
    {
      if constexpr(d_ >= 0)
      {
        const auto& ta = a.template get_target_set<d_>(); const auto& tb = b.template get_target_set<d_>();
        if(ta.get_num_entities() != tb.get_num_entities()) sim::fail("ROUNDTRIP_MESHPART", where + ": mapping size of dimension " + std::to_string(d_) + " changed");
        for(Index e = 0; e < ta.get_num_entities(); ++e) if(ta[e] != tb[e]) sim::fail("ROUNDTRIP_MESHPART", where + ": mapping entry changed");
        cmp_targets<d_ - 1>(a, b, where);
      }
    }

    template<int d_>
    static void check_ranges(const MeshType& m, const std::string& where)
    {
      if constexpr(d_ >= 1)
      {
        const auto& is = m.template get_index_set<d_, 0>();
        for(Index e = 0; e < is.get_num_entities(); ++e) for(int j = 0; j < is.num_indices; ++j)
          if(is(e, j) >= m.get_num_entities(0)) sim::fail("ACCEPTED_INDEX_OUT_OF_RANGE", where + ": accepted mesh has a vertex index beyond the vertex count");
        check_ranges<d_ - 1>(m, where);
      }
    }

    template<int d_>
    static void check_part_ranges(const Geometry::MeshPart<MeshType>& p, const MeshType& m, const std::string& where)
    {
      if constexpr(d_ >= 0)
      {
        const auto& t = p.template get_target_set<d_>();
        for(Index e = 0; e < t.get_num_entities(); ++e) if(t[e] >= m.get_num_entities(d_)) sim::fail("ACCEPTED_INDEX_OUT_OF_RANGE", where + ": accepted mesh part maps to a non-existing parent entity");
        check_part_ranges<d_ - 1>(p, m, where);
      }
    }

    // topology of a mesh part (given in the file for topology="full", deduced from the parent by the MeshNodeLinker for
    // topology="parent"): identical after the round trip, and consistent with the parent mesh - entity e of the part is the
    // parent entity its mapping names, so both have the same vertices (as sets of parent vertex indices)
    template<int d_>
    static void cmp_part_topology(const Geometry::MeshPart<MeshType>& a, const Geometry::MeshPart<MeshType>& b, const std::string& where)
    {
      if constexpr(d_ >= 1)
      {
        const auto& ia = a.template get_index_set<d_, 0>(); const auto& ib = b.template get_index_set<d_, 0>();
        if(ia.get_num_entities() != ib.get_num_entities()) sim::fail("ROUNDTRIP_MESHPART", where + ": topology of the mesh part changed its entity count in dimension " + std::to_string(d_));
        for(Index e = 0; e < ia.get_num_entities(); ++e) for(int j = 0; j < ia.num_indices; ++j)
          if(ia(e, j) != ib(e, j)) sim::fail("ROUNDTRIP_MESHPART", where + ": topology of the mesh part changed (dimension " + std::to_string(d_) + ", entity " + std::to_string(e) + ")");
        cmp_part_topology<d_ - 1>(a, b, where);
      }
    }
    template<int d_>
    static void check_part_topology(const Geometry::MeshPart<MeshType>& p, const MeshType& m, const std::string& where)
    {
      if constexpr(d_ >= 1)
      {
        const auto& ip = p.template get_index_set<d_, 0>();
        const auto& im = m.template get_index_set<d_, 0>();
        const auto& t0 = p.template get_target_set<0>();
        const auto& td = p.template get_target_set<d_>();
        if(ip.get_num_entities() == td.get_num_entities())
          for(Index e = 0; e < ip.get_num_entities(); ++e)
          {
            std::set<Index> a, b;
            bool ok = td[e] < im.get_num_entities();
            for(int j = 0; j < ip.num_indices && ok; ++j) { if(ip(e, j) >= t0.get_num_entities()) { ok = false; break; } a.insert(t0[ip(e, j)]); b.insert(im(td[e], j)); }
            if(!ok || a != b) sim::fail("MESHPART_TOPOLOGY", where + ": entity " + std::to_string(e) + " of dimension " + std::to_string(d_) + " of the mesh part does not have the vertices of the parent entity its mapping names");
          }
        check_part_topology<d_ - 1>(p, m, where);
      }
    }

    static bool near(double a, double b) { return std::abs(a - b) <= 2e-5 * std::abs(a) + 1e-300; }

    static void compare_docs(const Doc& a, const Doc& b, const std::string& where)
    {
      const MeshType* ma = a.node->get_mesh(); const MeshType* mb = b.node->get_mesh();
      if((ma == nullptr) != (mb == nullptr)) sim::fail("ROUNDTRIP_TOPOLOGY", where + ": root mesh lost");
      if(ma)
      {
        if(ma->get_num_entities(0) != mb->get_num_entities(0)) sim::fail("ROUNDTRIP_TOPOLOGY", where + ": vertex count changed");
        cmp_index_sets<dim>(*ma, *mb, where);
        const auto& va = ma->get_vertex_set(); const auto& vb = mb->get_vertex_set();
        for(Index i = 0; i < ma->get_num_entities(0); ++i) for(int k = 0; k < MeshType::world_dim; ++k)
          if(!near(double(va[i][k]), double(vb[i][k]))) sim::fail("ROUNDTRIP_COORDS", where + ": vertex " + std::to_string(i) + " moved beyond the printed precision: " + std::to_string(double(va[i][k])) + " -> " + std::to_string(double(vb[i][k])));
      }
      auto na = a.node->get_mesh_part_names(), nb = b.node->get_mesh_part_names();
      if(na != nb) sim::fail("ROUNDTRIP_MESHPART", where + ": mesh part names changed");
      for(const auto& n : na)
      {
        const auto* pa = a.node->find_mesh_part(n); const auto* pb = b.node->find_mesh_part(n);
        if(!pa || !pb) sim::fail("ROUNDTRIP_MESHPART", where + ": mesh part lost");
        cmp_targets<dim>(*pa, *pb, where + " part " + n);
        if(a.node->find_mesh_part_chart_name(n) != b.node->find_mesh_part_chart_name(n)) sim::fail("ROUNDTRIP_MESHPART", where + ": chart link of mesh part '" + n + "' changed");
        if(pa->has_topology() != pb->has_topology()) sim::fail("ROUNDTRIP_MESHPART", where + ": topology flag of mesh part changed");
        if(pa->has_topology()) { cmp_part_topology<dim>(*pa, *pb, where + " part " + n); if(mb) check_part_topology<dim>(*pb, *mb, where + " part " + n); }
        // attributes
        const auto& aa = pa->get_mesh_attributes(); const auto& ab = pb->get_mesh_attributes();
        if(aa.size() != ab.size()) sim::fail("ROUNDTRIP_ATTRIBUTE", where + ": attribute count of mesh part '" + n + "' changed");
        for(const auto& kv : aa)
        {
          auto it = ab.find(kv.first);
          if(it == ab.end()) sim::fail("ROUNDTRIP_ATTRIBUTE", where + ": attribute '" + kv.first + "' lost");
          const auto& x = *kv.second; const auto& y = *it->second;
          if(x.get_num_values() != y.get_num_values() || x.get_dimension() != y.get_dimension()) sim::fail("ROUNDTRIP_ATTRIBUTE", where + ": attribute shape changed");
          for(Index i = 0; i < x.get_num_values(); ++i) for(int k = 0; k < x.get_dimension(); ++k)
            if(!near(double(x(i, k)), double(y(i, k)))) sim::fail("ROUNDTRIP_ATTRIBUTE", where + ": attribute value changed beyond the printed precision");
        }
      }
      if(a.atlas->get_chart_names() != b.atlas->get_chart_names()) sim::fail("ROUNDTRIP_CHART", where + ": chart names changed");
      const auto& pa = a.parts.get_partitions(); const auto& pb = b.parts.get_partitions();
      if(pa.size() != pb.size()) sim::fail("ROUNDTRIP_PARTITION", where + ": partition count changed");
      auto ia = pa.begin(); auto ib = pb.begin();
      for(; ia != pa.end(); ++ia, ++ib)
      {
        if(ia->get_name() != ib->get_name() || ia->get_level() != ib->get_level() || ia->get_priority() != ib->get_priority() ||
           ia->get_num_patches() != ib->get_num_patches() || ia->get_num_elements() != ib->get_num_elements())
          sim::fail("ROUNDTRIP_PARTITION", where + ": partition header changed");
        const Adjacency::Graph& ga = ia->get_patches(); const Adjacency::Graph& gb = ib->get_patches();
        for(Index p = 0; p < ga.get_num_nodes_domain(); ++p)
        {
          if(ga.degree(p) != gb.degree(p)) sim::fail("ROUNDTRIP_PARTITION", where + ": patch size changed");
          auto x = ga.image_begin(p); auto y = gb.image_begin(p);
          for(; x != ga.image_end(p); ++x, ++y) if(*x != *y) sim::fail("ROUNDTRIP_PARTITION", where + ": patch element changed");
        }
      }
    }

    static void check_valid(const Doc& d, const std::string& where)
    {
      const MeshType* m = d.node->get_mesh();
      if(!m) return;
      check_ranges<dim>(*m, where);
      for(const auto& n : d.node->get_mesh_part_names())
      {
        const auto* p = d.node->find_mesh_part(n);
        if(p) check_part_ranges<0>(*p, *m, where + " part " + n);   // vertex-index ranges, as the property states
      }
    }

    static void insert_generated_bezier(Bytes& b)
    {
      std::string all(b.begin(), b.end());
      const size_t pm = all.find("<Mesh ");
      if(pm == std::string::npos) return;
      uint64_t s = uint64_t(sim::cfg_int("gen_bezier_seed", 0, 1 << 30)) * 0x9E3779B97F4A7C15ull + 17;
      auto rnd = [&s](uint64_t m) { s ^= s << 13; s ^= s >> 7; s ^= s << 17; return m == 0 ? 0 : s % m; };
      auto num = [&rnd]() { char buf[40]; snprintf(buf, sizeof(buf), "%g", double(long(rnd(129)) - 64) / 16.0); return std::string(buf); };
      const size_t nv = 2 + size_t(rnd(6));
      const bool closed = rnd(2) == 0, orient = rnd(3) == 0, params = rnd(2) == 0;
      std::ostringstream os;
      os << "<Chart name=\"gen:bezier\">\n    <Bezier dim=\"2\" size=\"" << nv << "\" type=\"" << (closed ? "closed" : "open") << "\"" << (orient ? " orientation=\"-1\"" : "") << ">\n      <Points>\n";
      const std::string x0 = num(), y0 = num();
      os << "        0 " << x0 << " " << y0 << "\n";
      for(size_t i = 1; i < nv; ++i)
      {
        const size_t nc = size_t(rnd(5));   // 0..4 control points: degree 1..5
        os << "        " << nc;
        for(size_t k = 0; k < nc; ++k) os << " " << num() << " " << num();
        if(closed && i + 1 == nv) os << " " << x0 << " " << y0 << "\n"; else os << " " << num() << " " << num() << "\n";
      }
      os << "      </Points>\n";
      if(params) { os << "      <Params>\n"; for(size_t i = 0; i < nv; ++i) os << "        " << double(i) * 0.5 << "\n"; os << "      </Params>\n"; }
      os << "    </Bezier>\n  </Chart>\n  ";
      all.insert(pm, os.str());
      b.assign(all.begin(), all.end());
      sim::probe("generated_bezier_chart");
    }

    static void run(const FileEntry& fe)
    {
      const std::string where = fe.name;
      size_t c_r0 = simfs::draw_chunk("chunk_r0"), c_w1 = simfs::draw_chunk("chunk_w1"), c_r1 = simfs::draw_chunk("chunk_r1"), c_w2 = simfs::draw_chunk("chunk_w2");
      const bool vary = sim::cfg_int("vary_chunks", 0, 2) != 0;
      const int refine = (fe.bytes.size() < 6000) ? int(sim::cfg_int("refine", 0, 1)) : 0;
      const bool do_fault = sim::cfg_int("faulted", 0, 2) != 0;
      // ---- clean pipeline
      Bytes b0 = fe.bytes;
      // generated variants: the parameters of the analytic charts (Extrude rotation/offset/origin, Circle, Sphere) are
      // replaced by seeded legal values before the first parse - the write/parse/write fixpoint must hold for them too
      if(sim::cfg_int("vary_charts", 0, 1) == 1) vary_chart_params(b0);
      // generated Bezier chart (2D only): segments of every degree the class supports (0..4 control points), open and closed
      // curves, both orientations, with and without a parameter block - the shipped files only have degrees 1 and 3
      if(dim == 2 && fe.charts.empty() && sim::cfg_int("gen_bezier", 0, 2) == 0) insert_generated_bezier(b0);
      Doc d0;
      Bytes bc = fe.charts;
      Parsed p0 = parse(b0, d0, c_r0, vary, size_t(-1), bc.empty() ? nullptr : &bc);
      if(!bc.empty()) sim::probe("multi_file_mesh");
      if(p0.outcome != PARSED) sim::fail("VALID_FILE_REJECTED", where + ": shipped mesh file rejected: " + p0.what);
      for(int r = 0; r < refine; ++r)
      {
        // a refined (or cloned) node is what applications write out: it has to carry the same mesh-part -> chart links as
        // the node that was read, by name (what the writer emits) and by pointer (what adaption uses)
        std::map<String, std::pair<String, bool>> links;
        for(const auto& n : d0.node->get_mesh_part_names()) links[n] = {d0.node->find_mesh_part_chart_name(n), d0.node->find_mesh_part_chart(n) != nullptr};
        auto next = (simfs::pick(2, "derive_via_clone") == 0) ? d0.node->refine_unique(Geometry::AdaptMode::none) : d0.node->clone_unique()->refine_unique(Geometry::AdaptMode::none);
        for(const auto& kv : links)
          if(next->find_mesh_part_chart_name(kv.first) != kv.second.first || (next->find_mesh_part_chart(kv.first) != nullptr) != kv.second.second)
            sim::fail("DERIVED_NODE_CHART_LINK", where + ": mesh part '" + kv.first + "' is linked to chart '" + kv.second.first + "' in the node that was read and to '" + next->find_mesh_part_chart_name(kv.first) + "' in the node refined from it");
        d0.node = std::move(next);
      }
      Bytes b1;
      write(d0, b1, c_w1, vary);
      CNT.bytes += b1.size();
      Doc d1;
      Parsed p1 = parse(b1, d1, c_r1, vary, size_t(-1));
      if(p1.outcome != PARSED) sim::fail("WRITER_OUTPUT_REJECTED", where + ": the writer's own output is rejected by the reader: " + p1.what);
      compare_docs(d0, d1, where);
      Bytes b2;
      write(d1, b2, c_w2, vary);
      if(b1 != b2)
      {
        size_t i = 0; while(i < b1.size() && i < b2.size() && b1[i] == b2[i]) ++i;
        sim::fail("ROUNDTRIP_BYTES", where + ": second write differs from the first at byte " + std::to_string(i) + " (sizes " + std::to_string(b1.size()) + " / " + std::to_string(b2.size()) + ")");
      }
      ++CNT.clean_roundtrips;
      if(!do_fault) return;

      // ---- faulted pipeline: storage faults between writer and reader
      Bytes bf = b1;
      simfs::FaultLog log;
      int nops = 1 + int(sim::cfg_weighted("fault_ops", {5, 2, 1}));
      int valid_variants = 0;   // ops that turn a valid file into another valid file
      for(int k = 0; k < nops; ++k)
      {
        int kind = int(sim::cfg_weighted(("fault_kind" + std::to_string(k)).c_str(), {4, 2, 1, 1, 3, 3, 3, 2, 2, 2, 2, 3, 2, 3, 2, 2, 1, 2, 2, 2, 3}));
        int bias = int(sim::cfg_int(("fault_bias" + std::to_string(k)).c_str(), 0, 1));
        switch(kind)
        {
        case 0: simfs::truncate_at(bf, log, bias); break;
        case 1: simfs::torn_block(bf, log); break;
        case 2: simfs::drop_block(bf, log); break;
        case 3: simfs::dup_block(bf, log); break;
        case 4: simfs::bitflip(bf, log, bias); break;
        case 5: line_fault(bf, log, false); break;
        case 6: line_fault(bf, log, true); break;
        case 7: size_change(bf, log); break;
        case 8: index_out_of_range(bf, log); break;
        case 9: mapping_out_of_range(bf, log); break;
        case 10: dim_change(bf, log); break;
        case 11: drop_element(bf, log); break;
        case 12: dup_element(bf, log); break;
        case 13: attr_change(bf, log); break;
        case 14: close_element(bf, log); break;
        case 15: part_drop_dimension(bf, log); break;
        case 16: part_make_empty(bf, log); break;
        case 17: chart_index_out_of_range(bf, log); break;
        case 18: if(part_parent_topology(bf, log)) ++valid_variants; break;
        case 19: if(parts_before_mesh(bf, log)) ++valid_variants; break;
        case 20: sign_flip(bf, log); break;
        }
      }
      size_t eof_limit = size_t(-1);
      if(sim::fault("EOF_EARLY") && !bf.empty())
      {
        eof_limit = simfs::pick(bf.size(), "eof_at");
        bool removed = false;
        for(size_t i = eof_limit; i < bf.size(); ++i) if(!simfs::is_ws(bf[i])) { removed = true; break; }
        if(removed) { log.must_reject = true; log.why += "reader saw EOF before the end of the root element; "; }
        log.ops += "EOF_EARLY(" + std::to_string(eof_limit) + ") ";
        ++CNT.eof_early;
      }
      // invalid-by-construction is only a theorem for a single fault op: two ops may cancel (a dropped and a duplicated
      // record in one block restore the count), so combinations are checked for robustness only
      if(nops + (eof_limit != size_t(-1) ? 1 : 0) > 1) log.must_reject = false;
      if(declares_huge(bf, b1)) { ++CNT.skipped_huge; return; }
      ++CNT.faulted;
      sim::note("fault ops: " + log.ops + (log.must_reject ? " must-reject: " + log.why : ""));
      Doc df;
      size_t c_rf = simfs::draw_chunk("chunk_rf");
      Parsed pf = parse(bf, df, c_rf, vary, eof_limit);
      // a file that only went through validity-preserving rewrites is a valid file
      const bool still_valid = valid_variants > 0 && valid_variants == nops && eof_limit == size_t(-1);
      if(pf.outcome == REJECTED && still_valid) sim::fail("VALID_FILE_REJECTED", where + ": valid input rejected after " + log.ops + ": " + pf.what);
      if(pf.outcome == REJECTED) { ++CNT.rejected; if(log.must_reject) ++CNT.must_reject; return; }
      ++CNT.accepted;
      if(log.must_reject) sim::fail("ACCEPTED_INVALID", where + ": invalid input accepted after " + log.ops + "(" + log.why + ")");
      // accepted after a fault: no claim about values, but the result must be structurally valid and re-writable
      check_valid(df, where);
      if(still_valid)
      {
        // the topology the reader deduced for the rewritten part has to be that of the parent entities it names
        const MeshType* m = df.node->get_mesh();
        for(const auto& n : df.node->get_mesh_part_names())
        {
          const auto* p = df.node->find_mesh_part(n);
          if(p && m && p->has_topology()) check_part_topology<dim>(*p, *m, where + " after " + log.ops + "part " + n);
        }
      }
      Bytes b3, b4;
      write(df, b3, 4096, false);
      Doc d3;
      Parsed p3 = parse(b3, d3, 4096, false, size_t(-1));
      if(p3.outcome != PARSED) sim::fail("ACCEPTED_NOT_REWRITABLE", where + ": input accepted after " + log.ops + "but its re-written form is rejected: " + p3.what);
      write(d3, b4, 4096, false);
      if(b3 != b4) sim::fail("ACCEPTED_NO_FIXPOINT", where + ": input accepted after " + log.ops + "does not reach a write/parse fixpoint");
    }

    static std::string dy(long k, long den) { char b[64]; snprintf(b, sizeof(b), "%.10g", double(k) / double(den)); return b; }

    static void vary_chart_params(Bytes& b)
    {
      std::string s(b.begin(), b.end());
      int n = 0;
      // <Extrude ...> : angles in revolutions (multiples of 1/8 incl. the gimbal-lock pitches +-1/4), offset, origin
      for(size_t p = s.find("<Extrude"); p != std::string::npos; p = s.find("<Extrude", p + 1))
      {
        size_t e = s.find('>', p);
        if(e == std::string::npos) break;
        const std::string tag = "<Extrude angles=\"" + dy(long(simfs::pick(9, "ex_yaw")) - 4, 8) + " " + dy(long(simfs::pick(9, "ex_pitch")) - 4, 8) + " " + dy(long(simfs::pick(9, "ex_roll")) - 4, 8) +
          "\" offset=\"" + dy(long(simfs::pick(9, "ex_ox")) - 4, 4) + " " + dy(long(simfs::pick(9, "ex_oy")) - 4, 4) + " " + dy(long(simfs::pick(9, "ex_oz")) - 4, 4) +
          "\" origin=\"" + dy(long(simfs::pick(5, "ex_rx")) - 2, 2) + " " + dy(long(simfs::pick(5, "ex_ry")) - 2, 2) + "\"";
        s.replace(p, e - p, tag);
        ++n;
      }
      for(size_t p = s.find("<Circle "); p != std::string::npos; p = s.find("<Circle ", p + 1))
      {
        size_t q = s.find("radius=\"", p), e = s.find('>', p);
        if(q == std::string::npos || e == std::string::npos || q > e) continue;
        size_t q2 = s.find('"', q + 8);
        s.replace(q + 8, q2 - (q + 8), dy(1 + long(simfs::pick(16, "ci_r")), 8));
        ++n;
      }
      for(size_t p = s.find("<Sphere "); p != std::string::npos; p = s.find("<Sphere ", p + 1))
      {
        size_t q = s.find("midpoint=\"", p), e = s.find('>', p);
        if(q == std::string::npos || e == std::string::npos || q > e) continue;
        size_t q2 = s.find('"', q + 10);
        s.replace(q + 10, q2 - (q + 10), dy(long(simfs::pick(9, "sp_x")) - 4, 4) + " " + dy(long(simfs::pick(9, "sp_y")) - 4, 4) + " " + dy(long(simfs::pick(9, "sp_z")) - 4, 4));
        ++n;
      }
      if(n) { b.assign(s.begin(), s.end()); sim::probe("chart_parameters_varied", uint64_t(n)); }
    }

    // ---- text-level fault ops that know the file format just enough to be invalid by construction ----------
    struct Line { size_t beg, end; };   // [beg,end) without the newline
    static std::vector<Line> lines_of(const Bytes& b)
    {
      std::vector<Line> v; size_t s = 0;
      for(size_t i = 0; i <= b.size(); ++i) if(i == b.size() || b[i] == '\n') { if(i > s || i < b.size()) v.push_back({s, i}); s = i + 1; }
      return v;
    }
    static std::string trimmed(const Bytes& b, const Line& l)
    {
      size_t x = l.beg, y = l.end;
      while(x < y && simfs::is_ws(b[x])) ++x;
      while(y > x && simfs::is_ws(b[y - 1])) --y;
      return std::string(b.begin() + long(x), b.begin() + long(y));
    }

    // data lines inside counted blocks of <Mesh>, <MeshPart>, <Partition> (not inside <Chart>)
    static std::vector<size_t> counted_data_lines(const Bytes& b, const std::vector<Line>& ls, std::vector<std::string>* block_of = nullptr)
    {
      std::vector<size_t> out; bool in_chart = false; std::string blk;
      for(size_t i = 0; i < ls.size(); ++i)
      {
        std::string t = trimmed(b, ls[i]);
        if(t.empty()) continue;
        if(t[0] == '<')
        {
          if(t.compare(0, 6, "<Chart") == 0) in_chart = true;
          else if(t.compare(0, 8, "</Chart>") == 0) in_chart = false;
          if(t.compare(0, 2, "</") == 0) blk.clear();
          else if(t.compare(0, 9, "<Vertices") == 0 || t.compare(0, 9, "<Topology") == 0 || t.compare(0, 8, "<Mapping") == 0 || t.compare(0, 10, "<Attribute") == 0 || t.compare(0, 6, "<Patch") == 0) blk = t;
          else blk.clear();
          continue;
        }
        if(!in_chart && !blk.empty()) { out.push_back(i); if(block_of) block_of->push_back(blk); }
      }
      return out;
    }

    static void line_fault(Bytes& b, simfs::FaultLog& log, bool dup)
    {
      auto ls = lines_of(b);
      auto cand = counted_data_lines(b, ls);
      if(cand.empty()) return;
      size_t li = cand[simfs::pick(cand.size(), dup ? "dup_line" : "drop_line")];
      Line l = ls[li];
      size_t end = l.end < b.size() ? l.end + 1 : l.end;
      if(dup) { Bytes cp(b.begin() + long(l.beg), b.begin() + long(end)); b.insert(b.begin() + long(end), cp.begin(), cp.end()); }
      else b.erase(b.begin() + long(l.beg), b.begin() + long(end));
      log.ops += std::string(dup ? "DUP_LINE(" : "DROP_LINE(") + std::to_string(li) + ") ";
      log.must_reject = true; log.why += "record count of a counted block no longer matches its declared size; ";
      sim::count_fault(dup ? "DUP_LINE" : "DROP_LINE");
    }

    // remove one whole child element (opening line .. closing line) - a lost extent of the file that happens to align
    // with an element. Mandatory blocks: <Vertices> and every <Topology> of the root mesh, every <Mapping> of a mesh part
    // with entities of that dimension, every <Topology> of a topology="full" mesh part with entities of that dimension.
    struct El { size_t open, close; std::string name; bool mandatory; bool unique; };
    static std::vector<El> scan_elements(const Bytes& b, const std::vector<Line>& ls)
    {
      std::vector<El> els;
      bool in_chart = false;
      for(size_t i = 0; i < ls.size(); ++i)
      {
        std::string t = trimmed(b, ls[i]);
        if(t.size() < 3 || t[0] != '<') continue;
        if(t.compare(0, 8, "</Chart>") == 0) { in_chart = false; continue; }
        if(t[1] == '/' || t[1] == '!' || t[1] == '?') continue;
        size_t ne = 1; while(ne < t.size() && (isalnum((unsigned char)t[ne]) || t[ne] == '_')) ++ne;
        std::string name = t.substr(1, ne - 1);
        if(name == "FeatMeshFile" || name == "Mesh" || name == "Info") continue;
        const bool chart_child = in_chart;
        if(name == "Chart") in_chart = true;
        if(t.size() >= 2 && t[t.size() - 2] == '/') continue;     // <x/>: nothing inside
        // closing line of this element: same name, properly nested for the writer's one-tag-per-line layout
        size_t depth = 0, close = size_t(-1);
        bool data = false;
        for(size_t j = i + 1; j < ls.size(); ++j)
        {
          std::string u = trimmed(b, ls[j]);
          if(u.empty()) continue;
          if(u.compare(0, name.size() + 2, "</" + name) == 0) { if(depth == 0) { close = j; break; } --depth; continue; }
          if(u.compare(0, name.size() + 1, "<" + name) == 0 && u.size() > name.size() + 1 && !isalnum((unsigned char)u[name.size() + 1])) ++depth;
          if(u[0] != '<') data = true;
        }
        if(close == size_t(-1)) continue;
        const bool counted = !chart_child && (name == "Vertices" || name == "Topology" || name == "Mapping");
        // blocks whose repetition contradicts a declared count: a second <Vertices>/<Topology dim>/<Mapping dim> of the same
        // parent (twice the declared entities), a second <Points> of a Bezier chart. A repeated chart or mesh part of the
        // same name is malformed too, but the property does not promise rejection for it: robustness only.
        const bool uniq = counted || (chart_child && name == "Points");
        els.push_back({i, close, name, counted && data, uniq});
      }
      return els;
    }

    // remove one whole child element (opening line .. closing line) - a lost extent of the file that happens to align
    // with an element. Mandatory blocks: <Vertices> and every <Topology> of the root mesh, every <Mapping> of a mesh part
    // with entities of that dimension, every <Topology> of a topology="full" mesh part with entities of that dimension.
    static void drop_element(Bytes& b, simfs::FaultLog& log)
    {
      auto ls = lines_of(b);
      std::vector<El> els = scan_elements(b, ls);
      if(els.empty()) return;
      // half of the time aim at a mandatory block (most elements of a big file are optional patches and attributes)
      std::vector<size_t> mand;
      for(size_t i = 0; i < els.size(); ++i) if(els[i].mandatory) mand.push_back(i);
      const bool aim = !mand.empty() && simfs::pick(2, "drop_element_aim") == 1;
      const El& e = aim ? els[mand[simfs::pick(mand.size(), "drop_element")]] : els[simfs::pick(els.size(), "drop_element")];
      const size_t beg = ls[e.open].beg;
      const size_t end = ls[e.close].end < b.size() ? ls[e.close].end + 1 : ls[e.close].end;
      b.erase(b.begin() + long(beg), b.begin() + long(end));
      log.ops += "DROP_ELEMENT(" + e.name + "@line" + std::to_string(e.open) + ") ";
      if(e.mandatory) { log.must_reject = true; log.why += "a mandatory <" + e.name + "> block with records is missing; "; }
      sim::count_fault("DROP_ELEMENT");
    }

    // damage one attribute of one markup line: drop it, duplicate it, or replace its value by a short legal-looking or
    // illegal token. Robustness only (no must-reject claim: whether the attribute is mandatory is the parser's business);
    // whatever is accepted must still be valid and re-writable.
    static void attr_change(Bytes& b, simfs::FaultLog& log)
    {
      std::string s(b.begin(), b.end());
      struct At { size_t beg, vbeg, vend; };    // [beg, vend+1): name="value"
      std::vector<At> ats;
      for(size_t p = s.find('<'); p != std::string::npos; p = s.find('<', p + 1))
      {
        if(p + 1 >= s.size() || !isalpha((unsigned char)s[p + 1])) continue;
        size_t e = s.find('>', p), nl = s.find('\n', p);
        if(e == std::string::npos || (nl != std::string::npos && nl < e)) continue;
        for(size_t q = s.find("=\"", p); q != std::string::npos && q < e; q = s.find("=\"", q + 1))
        {
          size_t nb = q; while(nb > p && (isalnum((unsigned char)s[nb - 1]) || s[nb - 1] == '_')) --nb;
          size_t ve = s.find('"', q + 2);
          if(ve == std::string::npos || ve > e || nb == q) break;
          ats.push_back({nb, q + 2, ve});
          q = ve;
        }
      }
      if(ats.empty()) return;
      // every third time among the size attributes only (the declared counts everything else is checked against)
      // ... and every third time among the numeric attributes of the analytic charts, with the values that are wrong for them
      const size_t focus = simfs::pick(3, "attr_sizes_only");
      bool chart_focus = false;
      if(focus == 0)
      {
        std::vector<At> sz;
        for(const At& x : ats) if(s.compare(x.beg, 5, "size=") == 0) sz.push_back(x);
        if(!sz.empty()) ats.swap(sz);
      }
      else if(focus == 1)
      {
        std::vector<At> ch;
        for(const At& x : ats) if(s.compare(x.beg, 9, "midpoint=") == 0 || s.compare(x.beg, 7, "radius=") == 0 || s.compare(x.beg, 7, "domain=") == 0) ch.push_back(x);
        if(!ch.empty()) { ats.swap(ch); chart_focus = true; }
      }
      const At a = ats[simfs::pick(ats.size(), "attr")];
      static const char* vals[15] = {"", "0", "1", "2", "7", "abc", "-1", "1 1", "0 0 0 0 0 0 0", "1.5", "x:y:z:w", " ", "-1 4", "2 -3", "-2 -2 -2"};
      static const size_t chart_ops[4] = {8, 6, 5, 0};
      const size_t op = chart_focus ? chart_ops[simfs::pick(4, "attr_op_chart")] : simfs::pick(17, "attr_op");
      const std::string name = s.substr(a.beg, a.vbeg - 2 - a.beg);
      if(op == 15) s.erase(a.beg, a.vend + 1 - a.beg);
      else if(op == 16) s.insert(a.vend + 1, " " + s.substr(a.beg, a.vend + 1 - a.beg));
      else s.replace(a.vbeg, a.vend - a.vbeg, vals[op]);
      b.assign(s.begin(), s.end());
      log.ops += "ATTR_CHANGE(" + name + (op == 15 ? ",dropped" : op == 16 ? ",doubled" : std::string(",'") + vals[op] + "'") + ") ";
      // every numeric attribute of the format has a fixed number of components, at most four: seven are too many
      if(op == 8)
      {
        static const char* numeric[] = {"midpoint", "radius", "domain", "size", "dim", "version", "verts", "trias", "priority", "level", "rank"};
        for(const char* n : numeric) if(name == n) { log.must_reject = true; log.why += "the numeric attribute '" + name + "' got seven components; "; }
      }
      sim::count_fault("ATTR_CHANGE");
    }

    // one numeric component of an attribute gets a minus sign (a one-byte insertion). Robustness only: many attributes may
    // legitimately be negative (midpoints, origins), others must not (radii, counts, levels) - whether the parser accepts
    // or rejects is its business, but it must do one of the two, and what it accepts must be valid and re-writable.
    static void sign_flip(Bytes& b, simfs::FaultLog& log)
    {
      std::string s(b.begin(), b.end());
      struct Num { size_t at; bool chart; };
      std::vector<Num> nums;
      for(size_t p = s.find('<'); p != std::string::npos; p = s.find('<', p + 1))
      {
        if(p + 1 >= s.size() || !isalpha((unsigned char)s[p + 1])) continue;
        size_t e = s.find('>', p), nl = s.find('\n', p);
        if(e == std::string::npos || (nl != std::string::npos && nl < e)) continue;
        for(size_t q = s.find("=\"", p); q != std::string::npos && q < e; q = s.find("=\"", q + 1))
        {
          size_t nb = q; while(nb > p && (isalnum((unsigned char)s[nb - 1]) || s[nb - 1] == '_')) --nb;
          size_t ve = s.find('"', q + 2);
          if(ve == std::string::npos || ve > e || nb == q) break;
          const std::string name = s.substr(nb, q - nb);
          const bool chart = (name == "radius" || name == "midpoint" || name == "domain" || name == "origin" || name == "offset" || name == "angles" || name == "transform");
          // start of every component that begins with a digit or a dot
          for(size_t i = q + 2; i < ve; ++i)
            if((isdigit((unsigned char)s[i]) || s[i] == '.') && (i == q + 2 || s[i - 1] == ' ')) nums.push_back({i, chart});
          q = ve;
        }
      }
      if(nums.empty()) return;
      if(simfs::pick(2, "sign_chart_only") == 0)
      {
        std::vector<Num> ch;
        for(const Num& x : nums) if(x.chart) ch.push_back(x);
        if(!ch.empty()) nums.swap(ch);
      }
      const Num n = nums[simfs::pick(nums.size(), "sign_at")];
      s.insert(n.at, "-");
      b.assign(s.begin(), s.end());
      log.ops += "SIGN_FLIP(" + std::to_string(n.at) + ") ";
      sim::count_fault("SIGN_FLIP");
    }

    // an element loses its content and terminator and becomes a closed markup <x ... /> (what remains when the extent
    // after the opening tag is lost and a repair tool closes the tag). A block that declares records (a counted block
    // with data lines, a <Patch size="k"> with k > 0) contradicts its count then.
    static void close_element(Bytes& b, simfs::FaultLog& log)
    {
      auto ls = lines_of(b);
      std::vector<El> els = scan_elements(b, ls);
      if(els.empty()) return;
      // elements with records of their own (not those that merely contain other elements)
      std::vector<size_t> with_data;
      for(size_t i = 0; i < els.size(); ++i)
      {
        bool data = false, child = false;
        for(size_t j = els[i].open + 1; j < els[i].close; ++j) { std::string u = trimmed(b, ls[j]); if(u.empty()) continue; if(u[0] == '<') child = true; else data = true; }
        if(data && !child) with_data.push_back(i);
      }
      const bool aim = !with_data.empty() && simfs::pick(3, "close_element_aim") != 0;
      const size_t ei = aim ? with_data[simfs::pick(with_data.size(), "close_element")] : simfs::pick(els.size(), "close_element");
      const El& e = els[ei];
      std::string open = trimmed(b, ls[e.open]);
      if(open.size() < 2 || open.back() != '>') return;
      open.insert(open.size() - 1, " /");
      const size_t beg = ls[e.open].beg;
      const size_t end = ls[e.close].end < b.size() ? ls[e.close].end + 1 : ls[e.close].end;
      const bool had_records = std::find(with_data.begin(), with_data.end(), ei) != with_data.end();
      b.erase(b.begin() + long(beg), b.begin() + long(end));
      open += "\n";
      b.insert(b.begin() + long(beg), open.begin(), open.end());
      log.ops += "CLOSE_ELEMENT(" + e.name + "@line" + std::to_string(e.open) + ") ";
      const bool counted = (e.name == "Vertices" || e.name == "Topology" || e.name == "Mapping" || e.name == "Attribute" || e.name == "Patch" || e.name == "Points" || e.name == "Params" || e.name == "Triangles");
      if(had_records && counted) { log.must_reject = true; log.why += "a <" + e.name + "> block that declares records became a closed markup without any; "; }
      sim::count_fault("CLOSE_ELEMENT");
    }

    // write one whole child element twice (a replayed extent)
    static void dup_element(Bytes& b, simfs::FaultLog& log)
    {
      auto ls = lines_of(b);
      std::vector<El> els = scan_elements(b, ls);
      if(els.empty()) return;
      std::vector<size_t> uq;
      for(size_t i = 0; i < els.size(); ++i) if(els[i].unique) uq.push_back(i);
      const bool aim = !uq.empty() && simfs::pick(2, "dup_element_aim") == 1;
      const El& e = aim ? els[uq[simfs::pick(uq.size(), "dup_element")]] : els[simfs::pick(els.size(), "dup_element")];
      const size_t beg = ls[e.open].beg;
      const size_t end = ls[e.close].end < b.size() ? ls[e.close].end + 1 : ls[e.close].end;
      Bytes cp(b.begin() + long(beg), b.begin() + long(end));
      if(cp.empty() || cp.back() != '\n') cp.push_back('\n');
      b.insert(b.begin() + long(end), cp.begin(), cp.end());
      log.ops += "DUP_ELEMENT(" + e.name + "@line" + std::to_string(e.open) + ") ";
      if(e.unique) { log.must_reject = true; log.why += "a <" + e.name + "> block that may occur only once in its parent occurs twice; "; }
      sim::count_fault("DUP_ELEMENT");
    }

    // change the first number of a size="..." attribute of <Mesh>/<MeshPart> by +1..+3
    static void size_change(Bytes& b, simfs::FaultLog& log)
    {
      std::string s(b.begin(), b.end());
      std::vector<size_t> pos;
      for(size_t p = s.find("<Mesh"); p != std::string::npos; p = s.find("<Mesh", p + 1))
      {
        size_t e = s.find('>', p), q = s.find("size=\"", p);
        if(q != std::string::npos && e != std::string::npos && q < e) pos.push_back(q + 6);
      }
      if(pos.empty()) return;
      size_t q = pos[simfs::pick(pos.size(), "size_attr")];
      size_t e = q; while(e < s.size() && isdigit((unsigned char)s[e])) ++e;
      if(e == q) return;
      long v = atol(s.substr(q, e - q).c_str());
      long nv = v + 1 + long(simfs::pick(3, "size_delta"));
      s.replace(q, e - q, std::to_string(nv));
      b.assign(s.begin(), s.end());
      log.ops += "SIZE_CHANGE(" + std::to_string(v) + "->" + std::to_string(nv) + ") ";
      log.must_reject = true; log.why += "declared entity count no longer matches the number of records; ";
      sim::count_fault("SIZE_CHANGE");
    }

    // replace one vertex index in a <Topology> line of the root mesh by a value >= vertex count
    static void index_out_of_range(Bytes& b, simfs::FaultLog& log)
    {
      auto ls = lines_of(b);
      std::vector<std::string> blocks;
      auto cand = counted_data_lines(b, ls, &blocks);
      // vertex count of the root mesh
      std::string s(b.begin(), b.end());
      size_t m = s.find("<Mesh type=");
      if(m == std::string::npos) return;
      size_t q = s.find("size=\"", m);
      if(q == std::string::npos) return;
      long nv = atol(s.c_str() + q + 6);
      size_t mesh_end = s.find("</Mesh>", m);
      std::vector<size_t> topo;
      for(size_t i = 0; i < cand.size(); ++i)
        if(blocks[i].compare(0, 9, "<Topology") == 0 && ls[cand[i]].beg > m && ls[cand[i]].beg < mesh_end) topo.push_back(cand[i]);
      if(topo.empty() || nv <= 0) return;
      Line l = ls[topo[simfs::pick(topo.size(), "oor_line")]];
      std::string t(b.begin() + long(l.beg), b.begin() + long(l.end));
      // replace the last number on the line
      size_t e = t.size(); while(e > 0 && !isdigit((unsigned char)t[e - 1])) --e;
      size_t st = e; while(st > 0 && isdigit((unsigned char)t[st - 1])) --st;
      if(st == e) return;
      long bad = nv + long(simfs::pick(5, "oor_delta"));
      t.replace(st, e - st, std::to_string(bad));
      b.erase(b.begin() + long(l.beg), b.begin() + long(l.end));
      b.insert(b.begin() + long(l.beg), t.begin(), t.end());
      log.ops += "INDEX_OOR(" + std::to_string(bad) + ">=" + std::to_string(nv) + ") ";
      log.must_reject = true; log.why += "a topology record refers to a vertex index beyond the declared vertex count; ";
      sim::count_fault("INDEX_OOR");
    }

    // a triangle of a SurfaceMesh chart names a vertex beyond the chart's declared vertex count
    static void chart_index_out_of_range(Bytes& b, simfs::FaultLog& log)
    {
      std::string s(b.begin(), b.end());
      std::vector<size_t> charts;
      for(size_t p = s.find("<SurfaceMesh "); p != std::string::npos; p = s.find("<SurfaceMesh ", p + 1)) charts.push_back(p);
      if(charts.empty()) return;
      const size_t p = charts[simfs::pick(charts.size(), "coor_chart")];
      size_t q = s.find("verts=\"", p);
      size_t tb = s.find("<Triangles>", p), te = s.find("</Triangles>", p), ce = s.find("</SurfaceMesh>", p);
      if(q == std::string::npos || tb == std::string::npos || te == std::string::npos || ce == std::string::npos || q > tb || te > ce) return;
      const long nv = atol(s.c_str() + q + 7);
      // data lines of the block
      std::vector<std::pair<size_t, size_t>> lines;
      size_t a = s.find('\n', tb);
      while(a != std::string::npos && a + 1 < te)
      {
        size_t e = s.find('\n', a + 1);
        if(e == std::string::npos || e > te) break;
        bool digit = false; for(size_t i = a + 1; i < e; ++i) digit = digit || isdigit((unsigned char)s[i]);
        if(digit) lines.emplace_back(a + 1, e);
        a = e;
      }
      if(lines.empty() || nv <= 0) return;
      auto ln = lines[simfs::pick(lines.size(), "coor_line")];
      std::string t = s.substr(ln.first, ln.second - ln.first);
      size_t e = t.size(); while(e > 0 && !isdigit((unsigned char)t[e - 1])) --e;
      size_t st = e; while(st > 0 && isdigit((unsigned char)t[st - 1])) --st;
      if(st == e) return;
      const long bad = nv + long(simfs::pick(5, "coor_delta"));
      t.replace(st, e - st, std::to_string(bad));
      s.replace(ln.first, ln.second - ln.first, t);
      b.assign(s.begin(), s.end());
      log.ops += "CHART_INDEX_OOR(" + std::to_string(bad) + ">=" + std::to_string(nv) + ") ";
      log.must_reject = true; log.why += "a triangle of a SurfaceMesh chart refers to a vertex index beyond the chart's declared vertex count; ";
      sim::count_fault("CHART_INDEX_OOR");
    }

    // rewrite the dim attribute of one <Topology>/<Mapping> tag to another dimension (0 .. shape_dim+2)
    static void dim_change(Bytes& b, simfs::FaultLog& log)
    {
      std::string s(b.begin(), b.end());
      std::vector<size_t> pos;
      for(const char* tag : {"<Topology dim=\"", "<Mapping dim=\""})
        for(size_t p = s.find(tag); p != std::string::npos; p = s.find(tag, p + 1)) pos.push_back(p + strlen(tag));
      if(pos.empty()) return;
      std::sort(pos.begin(), pos.end());
      size_t q = pos[simfs::pick(pos.size(), "dim_tag")];
      if(q >= s.size() || !isdigit((unsigned char)s[q])) return;
      int old = s[q] - '0';
      int nd = int(simfs::pick(size_t(dim) + 3, "dim_new"));
      if(nd == old) nd = (old + 1) % (dim + 3);
      s[q] = char('0' + nd);
      b.assign(s.begin(), s.end());
      log.ops += "DIM_CHANGE(" + std::to_string(old) + "->" + std::to_string(nd) + ") ";
      log.must_reject = true; log.why += "a topology/mapping block declares another dimension than its records belong to; ";
      sim::count_fault("DIM_CHANGE");
    }

    // replace one vertex index in a <Mapping dim="0"> block of a mesh part by a value >= the root mesh's vertex count
    static void mapping_out_of_range(Bytes& b, simfs::FaultLog& log)
    {
      auto ls = lines_of(b);
      std::vector<std::string> blocks;
      auto cand = counted_data_lines(b, ls, &blocks);
      std::string s(b.begin(), b.end());
      size_t m = s.find("<Mesh type=");
      if(m == std::string::npos) return;
      size_t q = s.find("size=\"", m);
      if(q == std::string::npos) return;
      long nv = atol(s.c_str() + q + 6);
      std::vector<size_t> maps;
      for(size_t i = 0; i < cand.size(); ++i)
        if(blocks[i].find("<Mapping dim=\"0\"") == 0) maps.push_back(cand[i]);
      if(maps.empty() || nv <= 0) return;
      Line l = ls[maps[simfs::pick(maps.size(), "moor_line")]];
      std::string t(b.begin() + long(l.beg), b.begin() + long(l.end));
      size_t e = t.size(); while(e > 0 && !isdigit((unsigned char)t[e - 1])) --e;
      size_t st = e; while(st > 0 && isdigit((unsigned char)t[st - 1])) --st;
      if(st == e) return;
      long bad = nv + long(simfs::pick(5, "moor_delta"));
      t.replace(st, e - st, std::to_string(bad));
      b.erase(b.begin() + long(l.beg), b.begin() + long(l.end));
      b.insert(b.begin() + long(l.beg), t.begin(), t.end());
      log.ops += "MAPPING_OOR(" + std::to_string(bad) + ">=" + std::to_string(nv) + ") ";
      log.must_reject = true; log.why += "a mesh part maps to a vertex index beyond the vertex count of its parent; ";
      sim::count_fault("MAPPING_OOR");
    }

    // ---- authoring variants: what a file written by hand may legitimately look like (or not - nothing is claimed; an input
    // that the reader accepts has to be writable and the writer's output has to be read back as the same thing)
    // all <MeshPart ...> ... </MeshPart> elements: [begin of the markup line, end of the closing line)
    static std::vector<std::pair<size_t, size_t>> mesh_parts(const std::string& s)
    {
      std::vector<std::pair<size_t, size_t>> r;
      for(size_t p = s.find("<MeshPart "); p != std::string::npos; p = s.find("<MeshPart ", p + 1))
      {
        size_t e = s.find("</MeshPart>", p);
        if(e == std::string::npos) break;
        r.emplace_back(p, e + 11);
      }
      return r;
    }
    static bool part_sizes(const std::string& part, size_t& q, size_t& qe, std::vector<long>& sz)
    {
      size_t eol = part.find('\n');
      q = part.find("size=\"");
      if(q == std::string::npos || q > eol) return false;
      q += 6; qe = part.find('"', q);
      if(qe == std::string::npos) return false;
      sz.clear();
      const char* c = part.c_str() + q;
      while(c < part.c_str() + qe) { while(*c == ' ') ++c; if(!isdigit((unsigned char)*c)) break; sz.push_back(atol(c)); while(isdigit((unsigned char)*c)) ++c; }
      return !sz.empty();
    }
    static void erase_blocks(std::string& part, const std::string& open_prefix, const std::string& close_tag, bool keep_markups)
    {
      for(size_t p = part.find(open_prefix); p != std::string::npos; p = part.find(open_prefix, p + (keep_markups ? open_prefix.size() : 0)))
      {
        size_t ls = part.rfind('\n', p); ls = (ls == std::string::npos) ? 0 : ls + 1;
        size_t ce = part.find(close_tag, p);
        if(ce == std::string::npos) return;
        size_t le = part.find('\n', ce); le = (le == std::string::npos) ? part.size() : le + 1;
        if(!keep_markups) { part.erase(ls, le - ls); p = ls; if(p >= part.size()) return; --p; }
        else
        {
          size_t first = part.find('\n', p); if(first == std::string::npos) return; ++first;
          size_t cls = part.rfind('\n', ce); cls = (cls == std::string::npos) ? first : cls + 1;
          if(cls > first) part.erase(first, cls - first);
        }
      }
    }
    // a part with full topology that lists its cells (and vertices) but not the entities of one dimension in between
    static void part_drop_dimension(Bytes& b, simfs::FaultLog& log)
    {
      std::string s(b.begin(), b.end());
      std::vector<std::pair<size_t, size_t>> cand;
      for(auto pr : mesh_parts(s))
      {
        std::string part = s.substr(pr.first, pr.second - pr.first);
        size_t q, qe; std::vector<long> sz;
        if(part.find("topology=\"full\"") > part.find('\n') || !part_sizes(part, q, qe, sz) || sz.size() < 3) continue;
        bool ok = false; for(size_t d = 1; d + 1 < sz.size(); ++d) for(size_t e = d + 1; e < sz.size(); ++e) if(sz[e] > 0) ok = true;
        if(ok) cand.push_back(pr);
      }
      if(cand.empty()) return;
      auto pr = cand[simfs::pick(cand.size(), "pdd_part")];
      std::string part = s.substr(pr.first, pr.second - pr.first);
      size_t q, qe; std::vector<long> sz; part_sizes(part, q, qe, sz);
      std::vector<size_t> dims; for(size_t d = 1; d + 1 < sz.size(); ++d) { bool hi = false; for(size_t e = d + 1; e < sz.size(); ++e) hi = hi || sz[e] > 0; if(hi) dims.push_back(d); }
      const size_t d = dims[simfs::pick(dims.size(), "pdd_dim")];
      sz[d] = 0;
      std::string ns; for(size_t i = 0; i < sz.size(); ++i) ns += (i ? " " : "") + std::to_string(sz[i]);
      part.replace(q, qe - q, ns);
      erase_blocks(part, "<Mapping dim=\"" + std::to_string(d) + "\"", "</Mapping>", false);
      erase_blocks(part, "<Topology dim=\"" + std::to_string(d) + "\"", "</Topology>", false);
      s.replace(pr.first, pr.second - pr.first, part);
      b.assign(s.begin(), s.end());
      log.ops += "PART_DROP_DIM(" + std::to_string(d) + ") ";
      sim::count_fault("PART_DROP_DIM");
    }
    // a part with its own topology rewritten as a part that takes its topology from the parent (topology="parent": the
    // reader deduces it), its vertices listed in another order. Same part, other author. Returns whether it was applied.
    static bool part_parent_topology(Bytes& b, simfs::FaultLog& log)
    {
      std::string s(b.begin(), b.end());
      std::vector<std::pair<size_t, size_t>> cand;
      for(auto pr : mesh_parts(s))
      {
        std::string part = s.substr(pr.first, pr.second - pr.first);
        if(part.find("topology=\"full\"") < part.find('\n') && part.find("<Mapping dim=\"0\"") != std::string::npos) cand.push_back(pr);
      }
      if(cand.empty()) return false;
      auto pr = cand[simfs::pick(cand.size(), "ppt_part")];
      std::string part = s.substr(pr.first, pr.second - pr.first);
      part.replace(part.find("topology=\"full\""), 15, "topology=\"parent\"");
      erase_blocks(part, "<Topology dim=", "</Topology>", false);
      // permute the data lines of the vertex mapping
      size_t mb = part.find("<Mapping dim=\"0\"");
      size_t first = part.find('\n', mb); size_t me = part.find("</Mapping>", mb);
      if(first == std::string::npos || me == std::string::npos) return false;
      ++first;
      size_t last = part.rfind('\n', me); if(last == std::string::npos || last < first) return false; ++last;
      std::vector<std::string> lines;
      for(size_t a = first; a < last; ) { size_t e = part.find('\n', a); if(e == std::string::npos || e >= last) e = last - 1; lines.push_back(part.substr(a, e + 1 - a)); a = e + 1; }
      for(size_t i = lines.size(); i > 1; --i) std::swap(lines[i - 1], lines[simfs::pick(i, "ppt_perm")]);
      std::string body; for(const auto& l : lines) body += l;
      part.replace(first, last - first, body);
      s.replace(pr.first, pr.second - pr.first, part);
      b.assign(s.begin(), s.end());
      log.ops += "PART_PARENT_TOPOLOGY ";
      sim::count_fault("PART_PARENT_TOPOLOGY");
      return true;
    }

    // the mesh parts of the file moved in front of the <Mesh> element: the reader takes the elements in any order (it only
    // checks mappings against the root mesh "if it has already been parsed") - same content, other author
    static bool parts_before_mesh(Bytes& b, simfs::FaultLog& log)
    {
      std::string s(b.begin(), b.end());
      size_t m = s.find("<Mesh ");
      if(m == std::string::npos) return false;
      size_t ml = s.rfind('\n', m); ml = (ml == std::string::npos) ? 0 : ml + 1;
      auto parts = mesh_parts(s);
      if(parts.empty() || parts.front().first < m) return false;
      // only parts that take nothing from the parent at parse time can be read before it
      std::string moved;
      for(auto it = parts.rbegin(); it != parts.rend(); ++it)
      {
        size_t ls = s.rfind('\n', it->first); ls = (ls == std::string::npos) ? 0 : ls + 1;
        size_t le = s.find('\n', it->second); le = (le == std::string::npos) ? s.size() : le + 1;
        moved = s.substr(ls, le - ls) + moved;
        s.erase(ls, le - ls);
      }
      s.insert(ml, moved);
      b.assign(s.begin(), s.end());
      log.ops += "PARTS_BEFORE_MESH ";
      sim::count_fault("PARTS_BEFORE_MESH");
      return true;
    }

    // a mesh part without any entity (its attributes, if any, keep their markup and lose their values)
    static void part_make_empty(Bytes& b, simfs::FaultLog& log)
    {
      std::string s(b.begin(), b.end());
      auto parts = mesh_parts(s);
      if(parts.empty()) return;
      auto pr = parts[simfs::pick(parts.size(), "pme_part")];
      std::string part = s.substr(pr.first, pr.second - pr.first);
      size_t q, qe; std::vector<long> sz;
      if(!part_sizes(part, q, qe, sz)) return;
      std::string ns; for(size_t i = 0; i < sz.size(); ++i) ns += (i ? " 0" : "0");
      part.replace(q, qe - q, ns);
      erase_blocks(part, "<Mapping dim=", "</Mapping>", false);
      erase_blocks(part, "<Topology dim=", "</Topology>", false);
      erase_blocks(part, "<Attribute ", "</Attribute>", true);
      s.replace(pr.first, pr.second - pr.first, part);
      b.assign(s.begin(), s.end());
      log.ops += "PART_EMPTY ";
      sim::count_fault("PART_EMPTY");
    }

    // after byte-level faults a declared count may have become astronomically large: nothing can be asserted about
    // memory behaviour then (the format has no size limit), so such inputs are not fed to the reader
    static bool declares_huge(const Bytes& bf, const Bytes& orig)
    {
      auto maxnum = [](const Bytes& b) {
        std::string s(b.begin(), b.end()); double mx = 0;
        for(size_t p = s.find("size=\""); p != std::string::npos; p = s.find("size=\"", p + 1))
        {
          size_t q = p + 6;
          while(q < s.size() && s[q] != '"' && q < p + 200)
          {
            if(isdigit((unsigned char)s[q])) { double v = 0; while(q < s.size() && isdigit((unsigned char)s[q])) { v = v * 10 + (s[q] - '0'); ++q; } if(v > mx) mx = v; }
            else ++q;
          }
        }
        return mx;
      };
      return maxnum(bf) > 10.0 * maxnum(orig) + 1000.0;
    }
  };

  // generated mesh nodes (the property quantifies over "shipped files and generators"): a refined unit cube of the
  // given shape with its boundary as a mesh part carrying an attribute, and a two-patch partition; serialised once with
  // the real writer. This is the only source of 1D meshes.
  template<typename Mesh_>
  Bytes generated_node(Index level)
  {
    Geometry::RefinedUnitCubeFactory<Mesh_> fac(level);
    auto node = Geometry::RootMeshNode<Mesh_>::make_unique(fac.make_unique());
    Geometry::BoundaryFactory<Mesh_> bfac(*node->get_mesh());
    auto part = bfac.make_unique();
    {
      typedef typename Geometry::MeshPart<Mesh_>::AttributeSetType AttrType;
      const Index nv = part->get_num_entities(0);
      std::unique_ptr<AttrType> at(new AttrType(nv, 2));
      for(Index i = 0; i < nv; ++i) { (*at)(i, 0) = double(i) * 0.25; (*at)(i, 1) = -1.5 + double(i % 3u); }
      part->add_attribute(std::move(at), "gen:attr");
    }
    node->add_mesh_part("gen:boundary", std::move(part));
    {
      // a part that holds one entity of dimension T = min(shape dimension, 2) - a cell, in 3D a face (FEAT cannot refine mesh
      // parts that contain hexahedra) - with all its sub-entities and its own (full) topology
      constexpr int D = Mesh_::shape_dim;
      constexpr int T = D < 2 ? D : 2;
      const Mesh_& mesh = *node->get_mesh();
      const Index top = mesh.get_num_entities(T) / 2u;
      Index cnt[D + 1];
      std::vector<Index> ents[D + 1];
      ents[T].push_back(top);
      { const auto& is = mesh.template get_index_set<T, 0>(); for(int k = 0; k < is.num_indices; ++k) ents[0].push_back(is(top, k)); }
      if constexpr(T >= 2) { const auto& is = mesh.template get_index_set<T, 1>(); for(int k = 0; k < is.num_indices; ++k) ents[1].push_back(is(top, k)); }
      for(int d = 0; d <= D; ++d) cnt[d] = Index(ents[d].size());
      std::unique_ptr<Geometry::MeshPart<Mesh_>> cp(new Geometry::MeshPart<Mesh_>(cnt, true));
      std::map<Index, Index> loc; for(size_t i = 0; i < ents[0].size(); ++i) loc[ents[0][i]] = Index(i);
      for(size_t i = 0; i < ents[0].size(); ++i) cp->template get_target_set<0>()[Index(i)] = ents[0][i];
      if constexpr(T >= 2)
      {
        const auto& is = mesh.template get_index_set<1, 0>();
        for(size_t i = 0; i < ents[1].size(); ++i) { cp->template get_target_set<1>()[Index(i)] = ents[1][i]; for(int k = 0; k < is.num_indices; ++k) cp->template get_index_set<1, 0>()(Index(i), k) = loc[is(ents[1][i], k)]; }
      }
      {
        const auto& is = mesh.template get_index_set<T, 0>();
        cp->template get_target_set<T>()[0] = top;
        for(int k = 0; k < is.num_indices; ++k) cp->template get_index_set<T, 0>()(0, k) = loc[is(top, k)];
      }
      Geometry::RedundantIndexSetBuilder<typename Mesh_::ShapeType>::compute(*cp->get_topology());
      node->add_mesh_part("gen:cell", std::move(cp));
    }
    Geometry::PartitionSet parts;
    {
      const Index ne = node->get_mesh()->get_num_elements();
      Adjacency::DynamicGraph g(Index(2), ne);
      for(Index e = 0; e < ne; ++e) g.insert(e < (ne + 2u) / 3u ? Index(0) : Index(1), e);
      if(ne >= 2u) parts.add_partition(Geometry::Partition(g, "gen:two", 3, 0));
    }
    std::ostringstream os;
    Geometry::MeshFileWriter writer(os);
    writer.write(node.get(), (Geometry::MeshAtlas<Mesh_>*)nullptr, &parts);
    const std::string t = os.str();
    return Bytes(t.begin(), t.end());
  }

  void load_files()
  {
    const char* dir = "/repo/data/meshes";
    std::vector<std::string> names;
    if(DIR* d = opendir(dir))
    {
      while(dirent* e = readdir(d)) { std::string n = e->d_name; if(n.size() > 4 && n.substr(n.size() - 4) == ".xml") names.push_back(n); }
      closedir(d);
    }
    std::sort(names.begin(), names.end());
    std::vector<FileEntry> pending, chart_files;
    for(const auto& n : names)
    {
      std::ifstream f(std::string(dir) + "/" + n, std::ios::binary);
      Bytes b((std::istreambuf_iterator<char>(f)), std::istreambuf_iterator<char>());
      if(b.size() > 140000 || b.empty()) continue;
      std::string head(b.begin(), b.begin() + long(std::min<size_t>(b.size(), 400)));
      // multi-file meshes (mesh parts referring to charts that live in a separate chart file) are not valid on their own
      {
        std::string all(b.begin(), b.end());
        bool external_chart = false;
        for(size_t p = all.find(" chart=\""); p != std::string::npos && !external_chart; p = all.find(" chart=\"", p + 1))
        {
          size_t q = p + 8, e = all.find('"', q);
          if(e == std::string::npos) break;
          std::string cn = all.substr(q, e - q);
          if(!cn.empty() && all.find("<Chart name=\"" + cn + "\"") == std::string::npos) external_chart = true;
        }
        if(external_chart) { pending.push_back({n, "", b, Bytes(), ""}); continue; }
      }
      bool typed = false;
      for(int t = 0; t < 4; ++t)
        if(head.find(std::string("mesh=\"") + g_types[t] + "\"") != std::string::npos) { g_files[t].push_back({n, g_types[t], b, Bytes(), ""}); typed = true; }
      if(!typed && head.find("mesh=\"") == std::string::npos) chart_files.push_back({n, "", b, Bytes(), ""});   // chart-only file
    }
    for(Index l = 0; l < 4; ++l) g_files[4].push_back({"generated:unit-line-level-" + std::to_string(l), g_types[4], generated_node<Geometry::ConformalMesh<FEAT::Shape::Hypercube<1>>>(l), Bytes(), ""});
    for(Index l = 0; l < 3; ++l) g_files[0].push_back({"generated:unit-square-quad-level-" + std::to_string(l), g_types[0], generated_node<Geometry::ConformalMesh<FEAT::Shape::Hypercube<2>>>(l), Bytes(), ""});
    for(Index l = 0; l < 2; ++l) g_files[2].push_back({"generated:unit-cube-hexa-level-" + std::to_string(l), g_types[2], generated_node<Geometry::ConformalMesh<FEAT::Shape::Hypercube<3>>>(l), Bytes(), ""});
    // generated inputs: the only shipped SurfaceMesh chart is a 1.2 MB file; give the 3D unit cubes a small one (a
    // tetrahedron surface resp. an octahedron) so that this chart type takes part in every pipeline
    for(int t = 2; t < 4; ++t)
    {
      const std::string base = (t == 2 ? "unit-cube-hexa.xml" : "unit-cube-tetra.xml");
      for(size_t i = 0; i < g_files[t].size(); ++i)
      {
        if(g_files[t][i].name != base) continue;
        std::string all(g_files[t][i].bytes.begin(), g_files[t][i].bytes.end());
        const size_t pm = all.find("<Mesh ");
        if(pm == std::string::npos) break;
        std::string chart = (t == 2)
          ? "<Chart name=\"gen:surf\">\n    <SurfaceMesh verts=\"4\" trias=\"4\">\n      <Vertices>\n        0 0 0\n        1 0 0\n        0 1 0\n        0 0 1\n      </Vertices>\n"
            "      <Triangles>\n        0 2 1\n        0 1 3\n        0 3 2\n        1 2 3\n      </Triangles>\n    </SurfaceMesh>\n  </Chart>\n  "
          : "<Chart name=\"gen:surf\">\n    <SurfaceMesh verts=\"6\" trias=\"8\">\n      <Vertices>\n        0.5 0.5 0\n        0.5 0.5 1\n        0 0.5 0.5\n        1 0.5 0.5\n        0.5 0 0.5\n        0.5 1 0.5\n      </Vertices>\n"
            "      <Triangles>\n        0 2 4\n        0 4 3\n        0 3 5\n        0 5 2\n        1 4 2\n        1 3 4\n        1 5 3\n        1 2 5\n      </Triangles>\n    </SurfaceMesh>\n  </Chart>\n  ";
        all.insert(pm, chart);
        g_files[t].push_back({"generated:" + base + "+surfacemesh-chart", g_types[t], Bytes(all.begin(), all.end()), Bytes(), ""});
        break;
      }
    }
    // multi-file meshes: pair each mesh that refers to external charts with the first chart-only file defining all of them
    for(FileEntry& pe : pending)
    {
      std::string all(pe.bytes.begin(), pe.bytes.end());
      std::string head = all.substr(0, std::min<size_t>(all.size(), 400));
      for(const FileEntry& cf : chart_files)
      {
        std::string cs(cf.bytes.begin(), cf.bytes.end());
        bool ok = true;
        for(size_t p = all.find(" chart=\""); p != std::string::npos && ok; p = all.find(" chart=\"", p + 1))
        {
          size_t q = p + 8, e = all.find('"', q);
          std::string cn = all.substr(q, e - q);
          if(!cn.empty() && all.find("<Chart name=\"" + cn + "\"") == std::string::npos && cs.find("<Chart name=\"" + cn + "\"") == std::string::npos) ok = false;
        }
        if(!ok) continue;
        for(int t = 0; t < 4; ++t)
          if(head.find(std::string("mesh=\"") + g_types[t] + "\"") != std::string::npos) g_files[t].push_back({pe.name + "+" + cf.name, g_types[t], pe.bytes, cf.bytes, cf.name});
        break;
      }
    }
  }
}

HarnessInfo harness_info() { return {"C11", "c11_mesh", 5000000}; }
void harness_process_init(int argc, char** argv) { Runtime::initialize(argc, argv); load_files(); }

std::string harness_run()
{
  sim::pthread_model_reset();
  sim::clock_reset();
  sim::fault_setup("EOF_EARLY", {100, 300});
  CNT = Counters();
  int shape = int(sim::cfg_weighted("shape", {10, 6, 6, 2, 1}));
  if(g_files[shape].empty()) sim::fail("INFRA", "no shipped mesh file of this shape found");
  size_t fi = size_t(sim::cfg_int("file", 0, 1 << 20)) % g_files[shape].size();
  const FileEntry& fe = g_files[shape][fi];
  sim::spawn("io", [shape, &fe]() {
    switch(shape)
    {
    case 0: Kit<Geometry::ConformalMesh<FEAT::Shape::Hypercube<2>>>::run(fe); break;
    case 1: Kit<Geometry::ConformalMesh<FEAT::Shape::Simplex<2>>>::run(fe); break;
    case 2: Kit<Geometry::ConformalMesh<FEAT::Shape::Hypercube<3>>>::run(fe); break;
    case 3: Kit<Geometry::ConformalMesh<FEAT::Shape::Simplex<3>>>::run(fe); break;
    case 4: Kit<Geometry::ConformalMesh<FEAT::Shape::Hypercube<1>>>::run(fe); break;
    }
  });
  sim::run_go();
  return "{\"file\":" + sim::jstr(fe.name) + ",\"clean_roundtrips\":" + std::to_string(CNT.clean_roundtrips) + ",\"faulted_parses\":" + std::to_string(CNT.faulted) +
    ",\"rejected\":" + std::to_string(CNT.rejected) + ",\"accepted_after_fault\":" + std::to_string(CNT.accepted) + ",\"must_reject_rejected\":" + std::to_string(CNT.must_reject) +
    ",\"bytes_written\":" + std::to_string(CNT.bytes) + ",\"refills\":" + std::to_string(CNT.refills) + ",\"short_reads\":" + std::to_string(CNT.short_reads) +
    ",\"skipped_huge_count\":" + std::to_string(CNT.skipped_huge) + ",\"eof_early\":" + std::to_string(CNT.eof_early) + "}";
}

int main(int argc, char** argv) { return harness_main(argc, argv); }
