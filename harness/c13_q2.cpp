// C13 / scalar Lagrange-2 systems (DOFs on vertices, edges and quad cells): same kit as c13_scalar.cpp
#include <kernel/space/lagrange2/element.hpp>
#include "c13_kit.hpp"

HarnessInfo harness_info() { return {"C13", "c13_q2", 60000000}; }
void harness_process_init(int argc, char** argv) { Runtime::initialize(argc, argv); }

std::string harness_run()
{
  sim::pthread_model_reset();
  sim::clock_reset();
  RunCfg rc;
  rc.w = sim::thorough() ? wc::draw_cfg(4, 2, false, true) : wc::draw_cfg(3, 2, false, true);
  rc.solver = int(sim::cfg_weighted("solver", {4, 2, 2, 1}));
  rc.cycle = int(sim::cfg_weighted("cycle", {3, 1, 2}));
  rc.wait_order = int(sim::cfg_int("wait_order", 0, 1));
  rc.splitter = int(sim::cfg_int("splitter", 0, 1));
  static const uint64_t costs[4] = {200000, 500000, 1000000, 3000000};
  sim::clock_set_read_cost(rc.w.parti == 2 ? costs[sim::cfg_int("clock_cost", 0, 3)] : 0);
  CNT = Counters();
  typedef Geometry::ConformalMesh<FEAT::Shape::Hypercube<2>> Quad;
  typedef Geometry::ConformalMesh<FEAT::Shape::Simplex<2>> Tria;
  switch(rc.w.mesh)
  {
  case 0: case 2: case 6: case 8: Kit<Quad, Space::Lagrange2::Element>::run(rc); break;
  default: Kit<Tria, Space::Lagrange2::Element>::run(rc); break;
  }
  sim::clock_set_read_cost(0);
  if(rc.w.layers > 1) sim::probe("multi_layer_world");
  if(CNT.three_way > 0) sim::probe("dof_shared_by_three_or_more_ranks");
  return "{\"sync0_dofs\":" + std::to_string(CNT.sync0_dofs) + ",\"shared_dofs\":" + std::to_string(CNT.shared_dofs) + ",\"three_way_dofs\":" + std::to_string(CNT.three_way) +
    ",\"matvec_entries\":" + std::to_string(CNT.matvec_entries) + ",\"solution_entries\":" + std::to_string(CNT.sol_entries) + ",\"solver_iterations\":" + std::to_string(CNT.iters) +
    ",\"levels\":" + std::to_string(CNT.levels) + ",\"transfer_entries\":" + std::to_string(CNT.transfer_entries) + ",\"level_spec\":" + sim::jstr(rc.w.levels) + "}";
}

int main(int argc, char** argv) { return harness_main(argc, argv); }
