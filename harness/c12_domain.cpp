// C12: n simulated ranks run the real Control::Domain::PartiDomainControl (single- and multi-layered creation,
// partitioners, halo splitting, joint refinement); afterwards the harness - which sees all ranks - checks the
// cross-rank invariants of DESIGN.md 5.3 with purely geometric entity keys.
#include "world_common.hpp"
#include <kernel/geometry/mesh_file_reader.hpp>
#include <kernel/geometry/unit_cube_patch_generator.hpp>
#include <algorithm>
#include <fstream>

using namespace FEAT;
using wc::Key;

namespace
{
  struct LevelRec
  {
    int world_rank = -1, layer = -1, level = -1, layer_rank = -1, layer_size = 0;
    std::vector<std::vector<Key>> ents;                         // [dim][local index]
    std::map<int, std::vector<std::vector<Key>>> halos;         // neighbour layer rank -> [dim] ordered keys
    std::vector<int> neighbors;
    std::map<std::string, std::vector<std::set<Key>>> parts;    // name -> [dim] key set
  };

  struct RankRec
  {
    std::vector<LevelRec> levels;
    std::string chosen_levels, parti_info;
    std::vector<std::pair<int, std::vector<Index>>> parti_graphs;   // (progeny_first*1000+ancestor index, flattened graph)
  };

  struct Shared
  {
    wc::VertexDict dict;
    std::vector<RankRec> ranks;
    // generated extern partitions: the mesh file text with <Partition> blocks appended; what the control has to pick
    std::string mesh_text;
    std::vector<Index> expect_graph;   // flattened like RankRec::parti_graphs
    std::string expect_name;
    std::vector<std::string> extern_names;   // name restriction handed to the control (empty: none)
    int mesh_perm = 0;                       // mesh permutation strategy of the control (0: none), applied by create() to every patch level
  };
  Shared* SH = nullptr;

  struct Counters { uint64_t level_groups = 0, cells = 0, halo_pairs = 0, halo_entities = 0, parts = 0, neighbor_pairs = 0; } CNT;

  template<typename Mesh_>
  struct ShapeKit
  {
    typedef Mesh_ MeshType;
    typedef Trafo::Standard::Mapping<MeshType> TrafoType;
    typedef Space::Lagrange1::Element<TrafoType> SpaceType;
    typedef Control::Domain::SimpleDomainLevel<MeshType, TrafoType, SpaceType> DomainLevelType;
    typedef wc::SimPDC<DomainLevelType> DomainType;
    typedef Geometry::RootMeshNode<MeshType> NodeType;

    static void record_level(RankRec& rr, int wrank, const DomainLevelType& lvl, const Control::Domain::DomainLayer& layer)
    {
      LevelRec r;
      r.world_rank = wrank; r.layer = layer.get_layer_index(); r.level = lvl.get_level_index();
      r.layer_rank = layer.comm().rank(); r.layer_size = layer.comm().size();
      const NodeType* node = lvl.get_mesh_node();
      const MeshType& mesh = *node->get_mesh();
      r.ents = wc::entity_keys(mesh, SH->dict);
      r.neighbors = layer.get_neighbor_ranks();
      {
        std::set<int> once(r.neighbors.begin(), r.neighbors.end());
        if(once.size() != r.neighbors.size()) sim::fail("NEIGHBOUR_DUPLICATE", "the neighbour list of layer rank " + std::to_string(layer.comm().rank()) + " names a rank more than once");
      }
      for(const auto& kv : node->get_halo_map())
      {
        auto trg = wc::part_targets<MeshType>(*kv.second);
        std::vector<std::vector<Key>> hk(trg.size());
        for(size_t d = 0; d < trg.size(); ++d) for(Index e : trg[d])
        {
          if(e >= r.ents[d].size()) sim::fail("HALO_INDEX_RANGE", "halo of rank " + std::to_string(wrank) + " refers to a non-existing patch entity");
          hk[d].push_back(r.ents[d][e]);
        }
        r.halos[kv.first] = hk;
      }
      for(const auto& name : node->get_mesh_part_names(true))
      {
        const auto* part = node->find_mesh_part(name);
        if(part == nullptr) continue;
        auto trg = wc::part_targets<MeshType>(*part);
        std::vector<std::set<Key>> pk(trg.size());
        for(size_t d = 0; d < trg.size(); ++d) for(Index e : trg[d])
        {
          if(e >= r.ents[d].size()) sim::fail("PART_INDEX_RANGE", "mesh part '" + name + "' refers to a non-existing patch entity");
          pk[d].insert(r.ents[d][e]);
        }
        r.parts[name] = pk;
      }
      rr.levels.push_back(std::move(r));
    }

    static void rank_body(int wrank, const wc::WorldCfg& cfg)
    {
      Dist::Comm comm = Dist::Comm::world();
      DomainType domain(comm, true);
      switch(cfg.parti)
      {
      case 0: domain.select_partitioners(true, true, true, false, 0, 0, cfg.rank_elems); break;
      case 1: domain.select_partitioners(false, false, true, false, 0, 0, cfg.rank_elems); break;
      case 2: domain.select_partitioners(false, false, true, true, 0.0005, 0.0005, cfg.rank_elems); break;
      case 3: domain.select_partitioners(false, false, true, false, 0, 0, 1);
        domain.use_explicit = true; domain.explicit_level = cfg.assign_level; domain.explicit_seed = cfg.assign_seed; domain.explicit_mode = cfg.adapt; break;
      }
      // element weights disable every a-priori partitioning (extern, 2-level, explicit): use them with the naive one only
      if(cfg.parti == 1) { domain.weight_mode = cfg.weight_mode; domain.weight_seed = cfg.assign_seed; if(wrank == 0 && cfg.weight_mode != 0) sim::probe("weighted_naive_partitioner_world"); }
      domain.set_desired_levels(String(cfg.levels));
      {
        // a legal configuration of the control: after the partitioning every level of every patch is renumbered; halos and
        // mesh parts are positional lists and have to follow (all oracles below work on geometric keys, not on numbers)
        static const Geometry::PermutationStrategy ps[8] = {Geometry::PermutationStrategy::none, Geometry::PermutationStrategy::random,
          Geometry::PermutationStrategy::lexicographic, Geometry::PermutationStrategy::colored, Geometry::PermutationStrategy::cuthill_mckee,
          Geometry::PermutationStrategy::cuthill_mckee_reversed, Geometry::PermutationStrategy::geometric_cuthill_mckee,
          Geometry::PermutationStrategy::geometric_cuthill_mckee_reversed};
        if(SH->mesh_perm != 0) domain.set_permutation_strategy(ps[SH->mesh_perm]);
      }
      if(!SH->mesh_text.empty())
      {
        // the explicit assignment arrives as an extern partition of the mesh file (the real PartitionSet lookup by size,
        // priority and level) instead of through the _check_parti seam
        domain.use_explicit = false;
        domain.select_partitioners(true, false, true, false, 0, 0, 1);
        if(!SH->extern_names.empty()) { std::deque<String> nm; for(const auto& x : SH->extern_names) nm.push_back(String(x)); domain.set_extern_names(nm); }
        std::istringstream iss(SH->mesh_text);
        Geometry::MeshFileReader reader;
        reader.add_stream(iss);
        domain.create(reader);
      }
      else
      {
        std::deque<String> files; files.push_back(String(cfg.mesh_file));
        domain.create(files, String("/repo/data/meshes"));
      }
      domain.add_trafo_mesh_part_charts();

      RankRec& rr = SH->ranks[size_t(wrank)];
      rr.chosen_levels = domain.format_chosen_levels();
      for(std::size_t i = 0; i < domain.local_virtual_size(); ++i)
      {
        auto& vl = domain.at(i);
        if(vl.is_child())
        {
          record_level(rr, wrank, vl.level_c(), vl.layer_c());
          if(vl.is_parent()) record_level(rr, wrank, vl.level_p(), vl.layer_p());
        }
        else record_level(rr, wrank, vl.level(), vl.layer());
      }
      const auto& anc = domain.get_ancestry();
      for(size_t a = 0; a < anc.size(); ++a)
      {
        const Adjacency::Graph& g = anc[a].parti_graph;
        std::vector<Index> flat;
        flat.push_back(g.get_num_nodes_domain()); flat.push_back(g.get_num_nodes_image());
        for(Index i = 0; i <= g.get_num_nodes_domain() && g.get_domain_ptr() != nullptr; ++i) flat.push_back(g.get_domain_ptr()[i]);
        for(Index i = 0; i < g.get_num_indices() && g.get_image_idx() != nullptr; ++i) flat.push_back(g.get_image_idx()[i]);
        rr.parti_graphs.push_back({int(a) * 1000 + anc[a].progeny_first, flat});
        if(a == 0) rr.parti_info = anc[a].parti_info;
      }
      comm.barrier();
    }

    // reference: the same base mesh refined to the given level in one process, no partitioning code involved
    struct Reference { std::vector<std::vector<std::set<Key>>> ents; std::vector<std::map<std::string, std::vector<std::set<Key>>>> parts; };

    static void build_reference(const wc::WorldCfg& cfg, int max_level, Reference& ref)
    {
      Geometry::MeshFileReader reader;
      std::ifstream ifs(std::string("/repo/data/meshes/") + cfg.mesh_file);
      if(!ifs.good()) sim::fail("INFRA", "cannot open mesh file for the reference");
      reader.add_stream(ifs);
      Geometry::MeshAtlas<MeshType> atlas;
      std::unique_ptr<NodeType> node = NodeType::make_unique(nullptr, &atlas);
      reader.parse(*node, atlas, nullptr);
      // (no adapt() of the base mesh: the domain control does not adapt level 0 either, only refined levels)
      for(int l = 0; l <= max_level; ++l)
      {
        auto ek = wc::entity_keys(*node->get_mesh(), SH->dict);
        std::vector<std::set<Key>> es(ek.size());
        for(size_t d = 0; d < ek.size(); ++d) { es[d].insert(ek[d].begin(), ek[d].end()); if(es[d].size() != ek[d].size()) sim::fail("INFRA", "reference mesh has duplicate entity keys"); }
        ref.ents.push_back(es);
        std::map<std::string, std::vector<std::set<Key>>> pm;
        for(const auto& name : node->get_mesh_part_names(true))
        {
          const auto* part = node->find_mesh_part(name);
          if(!part) continue;
          auto trg = wc::part_targets<MeshType>(*part);
          std::vector<std::set<Key>> pk(trg.size());
          for(size_t d = 0; d < trg.size(); ++d) for(Index e : trg[d]) pk[d].insert(ek[d][e]);
          pm[name] = pk;
        }
        ref.parts.push_back(pm);
        if(l < max_level) node = node->refine_unique(Geometry::AdaptMode::chart);
      }
    }

    static void verify(const wc::WorldCfg& cfg)
    {
      constexpr int dim = MeshType::shape_dim;
      // group level records by (layer, level)
      std::map<std::pair<int, int>, std::vector<const LevelRec*>> groups;
      int max_level = 0;
      for(const RankRec& rr : SH->ranks) for(const LevelRec& r : rr.levels) { groups[{r.layer, r.level}].push_back(&r); max_level = std::max(max_level, r.level); }
      Reference ref;
      build_reference(cfg, max_level, ref);

      // 10: a generated extern partition: the control must have picked the one with the highest priority among those of
      // the right size, and use it as given
      if(!SH->mesh_text.empty())
        for(const RankRec& rr : SH->ranks)
        {
          if(rr.parti_info.find("'" + SH->expect_name + "'") == std::string::npos)
            sim::fail("EXTERN_PARTITION", "the partition '" + SH->expect_name + "' of the mesh file (right size, highest priority) was not chosen: " + rr.parti_info);
          if(rr.parti_graphs.empty() || rr.parti_graphs.front().second != SH->expect_graph)
            sim::fail("EXTERN_PARTITION", "the partition graph in use differs from the extern partition '" + SH->expect_name + "' of the mesh file");
        }
      // 9: all ranks report the same chosen levels
      for(const RankRec& rr : SH->ranks)
        if(rr.chosen_levels != SH->ranks[0].chosen_levels)
          sim::fail("CHOSEN_LEVELS_DIFFER", "ranks disagree on the chosen levels: '" + SH->ranks[0].chosen_levels + "' vs '" + rr.chosen_levels + "'");
      // 8: all ranks of one progeny group hold the same partition graph
      {
        std::map<int, const std::vector<Index>*> seen;
        for(const RankRec& rr : SH->ranks) for(const auto& pg : rr.parti_graphs)
        {
          auto it = seen.find(pg.first);
          if(it == seen.end()) seen[pg.first] = &pg.second;
          else if(*it->second != pg.second) sim::fail("PARTI_GRAPH_DIFFERS", "ranks of one progeny group hold different partition graphs (ancestor " + std::to_string(pg.first / 1000) + ")");
        }
        for(const RankRec& rr : SH->ranks) for(const auto& pg : rr.parti_graphs)
        {
          const std::vector<Index>& f = pg.second;
          if(f.size() < 2 || f[0] == 0) continue;
          Index np = f[0];
          for(Index p = 0; p < np; ++p) if(f[2 + p] == f[2 + p + 1]) sim::fail("EMPTY_PATCH", "partitioner returned an empty patch " + std::to_string(p) + " of " + std::to_string(np));
        }
      }

      for(const auto& g : groups)
      {
        ++CNT.level_groups;
        const int layer = g.first.first, level = g.first.second;
        const std::string where = "layer " + std::to_string(layer) + " level " + std::to_string(level);
        std::map<int, const LevelRec*> by_lr;
        for(const LevelRec* r : g.second)
        {
          if(by_lr.count(r->layer_rank)) sim::fail("INFRA", "two records for one layer rank");
          by_lr[r->layer_rank] = r;
        }
        const int lsize = g.second.front()->layer_size;
        if(int(by_lr.size()) != lsize)
          sim::fail("LAYER_INCOMPLETE", where + ": " + std::to_string(by_lr.size()) + " of " + std::to_string(lsize) + " layer ranks hold this level");
        // 2: injective local -> base within a patch
        for(const auto& kv : by_lr)
          for(int d = 0; d <= dim; ++d)
          {
            std::set<Key> s(kv.second->ents[size_t(d)].begin(), kv.second->ents[size_t(d)].end());
            if(s.size() != kv.second->ents[size_t(d)].size()) sim::fail("NOT_INJECTIVE", where + ": patch of layer rank " + std::to_string(kv.first) + " contains an entity of dimension " + std::to_string(d) + " twice");
          }
        // 1: cover - every reference cell exactly once
        {
          std::map<Key, int> cnt;
          for(const auto& kv : by_lr) for(const Key& k : kv.second->ents[size_t(dim)]) { ++cnt[k]; ++CNT.cells; }
          const std::set<Key>& rc = ref.ents[size_t(level)][size_t(dim)];
          for(const auto& kc : cnt)
          {
            if(!rc.count(kc.first)) sim::fail("COVER", where + ": a patch cell does not exist in the reference mesh");
            if(kc.second != 1) sim::fail("COVER", where + ": a cell is contained in " + std::to_string(kc.second) + " patches");
          }
          if(cnt.size() != rc.size()) sim::fail("COVER", where + ": patches contain " + std::to_string(cnt.size()) + " of " + std::to_string(rc.size()) + " cells");
        }
        // 3,4,5: halos and neighbours
        std::map<int, std::vector<std::set<Key>>> esets;
        for(const auto& kv : by_lr)
        {
          std::vector<std::set<Key>> es(size_t(dim) + 1);
          for(int d = 0; d <= dim; ++d) es[size_t(d)].insert(kv.second->ents[size_t(d)].begin(), kv.second->ents[size_t(d)].end());
          esets[kv.first] = es;
        }
        for(const auto& a : by_lr) for(const auto& b : by_lr)
        {
          if(a.first >= b.first) continue;
          ++CNT.neighbor_pairs;
          const LevelRec& ra = *a.second; const LevelRec& rb = *b.second;
          bool share_vertex = false;
          for(const Key& k : esets[a.first][0]) if(esets[b.first][0].count(k)) { share_vertex = true; break; }
          bool a_lists_b = std::find(ra.neighbors.begin(), ra.neighbors.end(), b.first) != ra.neighbors.end();
          bool b_lists_a = std::find(rb.neighbors.begin(), rb.neighbors.end(), a.first) != rb.neighbors.end();
          if(a_lists_b != b_lists_a) sim::fail("NEIGHBOR_ASYMMETRIC", where + ": layer ranks " + std::to_string(a.first) + " and " + std::to_string(b.first) + " disagree on being neighbours");
          // complete, as the property says; a neighbour without a common vertex is not forbidden by it (its halo must then be empty,
          // which the halo-set oracle below enforces)
          if(share_vertex && !a_lists_b)
            sim::fail("NEIGHBOR_INCOMPLETE", where + ": layer ranks " + std::to_string(a.first) + " and " + std::to_string(b.first) + " share a vertex but are not neighbours");
          auto ha = ra.halos.find(b.first); auto hb = rb.halos.find(a.first);
          if((ha != ra.halos.end()) != (hb != rb.halos.end())) sim::fail("HALO_ASYMMETRIC", where + ": only one of the layer ranks " + std::to_string(a.first) + "," + std::to_string(b.first) + " has a halo for the other");
          if(share_vertex && ha == ra.halos.end()) sim::fail("HALO_MISSING", where + ": halo between layer ranks " + std::to_string(a.first) + "," + std::to_string(b.first) + " is missing");
          if(ha == ra.halos.end()) continue;
          ++CNT.halo_pairs;
          for(int d = 0; d <= dim; ++d)
          {
            const std::vector<Key>& ka = ha->second[size_t(d)]; const std::vector<Key>& kb = hb->second[size_t(d)];
            // same entities, same order: mirrors exchange buffers positionally
            if(ka != kb)
            {
              std::set<Key> sa(ka.begin(), ka.end()), sb(kb.begin(), kb.end());
              sim::fail(sa == sb ? "HALO_ORDER" : "HALO_SET", where + ": halos of layer ranks " + std::to_string(a.first) + "," + std::to_string(b.first) + " differ in dimension " + std::to_string(d) +
                (sa == sb ? " (same entities, different order)" : " (different entity sets)"));
            }
            CNT.halo_entities += ka.size();
            std::set<Key> sa(ka.begin(), ka.end());
            if(sa.size() != ka.size()) sim::fail("HALO_SET", where + ": halo lists an entity twice");
            // completeness: exactly the shared entities
            std::set<Key> inter;
            for(const Key& k : esets[a.first][size_t(d)]) if(esets[b.first][size_t(d)].count(k)) inter.insert(k);
            if(inter != sa) sim::fail("HALO_INCOMPLETE", where + ": halo between layer ranks " + std::to_string(a.first) + "," + std::to_string(b.first) + " in dimension " + std::to_string(d) + " has " +
              std::to_string(sa.size()) + " entities, the patches share " + std::to_string(inter.size()));
          }
        }
        for(const auto& a : by_lr) for(const auto& h : a.second->halos)
          if(!by_lr.count(h.first)) sim::fail("HALO_SET", where + ": halo for a rank outside the layer");
        // 7: mesh parts - union over the ranks equals the reference part
        const auto& rparts = ref.parts[size_t(level)];
        for(const auto& rp : rparts)
        {
          ++CNT.parts;
          for(int d = 0; d <= dim; ++d)
          {
            std::set<Key> un;
            for(const auto& kv : by_lr)
            {
              auto it = kv.second->parts.find(rp.first);
              if(it == kv.second->parts.end()) continue;
              un.insert(it->second[size_t(d)].begin(), it->second[size_t(d)].end());
            }
            if(un != rp.second[size_t(d)]) sim::fail("MESHPART", where + ": mesh part '" + rp.first + "' dimension " + std::to_string(d) + ": union over patches has " +
              std::to_string(un.size()) + " entities, reference has " + std::to_string(rp.second[size_t(d)].size()));
            // and patch by patch: a patch's part holds exactly those entities of the patch that belong to the part of the
            // undecomposed mesh - also entities the patch touches the part with only in a vertex or an edge (boundary
            // conditions are applied per patch: a missing entity is a DOF that one rank treats differently from its neighbours)
            for(const auto& kv : by_lr)
            {
              std::set<Key> want;
              for(const Key& k : kv.second->ents[size_t(d)]) if(rp.second[size_t(d)].count(k)) want.insert(k);
              auto it = kv.second->parts.find(rp.first);
              const std::set<Key> none;
              const std::set<Key>& have = (it == kv.second->parts.end()) ? none : it->second[size_t(d)];
              if(have != want) sim::fail("MESHPART_PATCH", where + ": mesh part '" + rp.first + "' dimension " + std::to_string(d) + " on layer rank " + std::to_string(kv.first) + " holds " +
                std::to_string(have.size()) + " entities, the patch contains " + std::to_string(want.size()) + " entities of that part");
            }
          }
        }
      }
    }
  };

  // number of cells of the mesh file on level 0 and refinement factor
  template<typename Mesh_>
  Index base_cells(const std::string& text)
  {
    std::istringstream iss(text);
    Geometry::MeshFileReader reader;
    reader.add_stream(iss);
    Geometry::MeshAtlas<Mesh_> atlas;
    auto node = Geometry::RootMeshNode<Mesh_>::make_unique(nullptr, &atlas);
    reader.parse(*node, atlas, nullptr);
    return node->get_mesh()->get_num_elements();
  }

  std::string partition_xml(const char* name, int prio, int level, Index np, const std::vector<Index>& owner)
  {
    std::ostringstream os;
    os << "  <Partition name=\"" << name << "\" priority=\"" << prio << "\" level=\"" << level << "\" size=\"" << np << " " << owner.size() << "\">\n";
    for(Index r = 0; r < np; ++r)
    {
      Index k = 0; for(Index o : owner) if(o == r) ++k;
      os << "    <Patch rank=\"" << r << "\" size=\"" << k << "\">\n";
      for(Index c = 0; c < Index(owner.size()); ++c) if(owner[c] == r) os << "      " << c << "\n";
      os << "    </Patch>\n";
    }
    os << "  </Partition>\n";
    return os.str();
  }

  // seeded assignment: every rank gets one cell, the rest random / one big patch + crumbs / stripes
  std::vector<Index> seeded_owner(Index num_elems, Index np, unsigned long long seed, int mode)
  {
    std::vector<Index> owner(num_elems), perm(num_elems);
    unsigned long long s = seed * 2862933555777941757ull + 3037000493ull;
    auto rnd = [&s](Index m) { s = s * 6364136223846793005ull + 1442695040888963407ull; return Index((s >> 33) % m); };
    for(Index i = 0; i < num_elems; ++i) perm[i] = i;
    for(Index i = num_elems; i > 1; --i) std::swap(perm[i - 1], perm[rnd(i)]);
    for(Index i = 0; i < num_elems; ++i)
    {
      Index r;
      if(i < np) r = i;
      else if(mode == 0) r = rnd(np);
      else if(mode == 1) r = 0;
      else r = (i * np) / num_elems;
      owner[perm[i]] = r;
    }
    return owner;
  }

  // RootMeshNode::extract_patch called directly (no control layer, no MPI): any number of patches from 1 to the number of
  // cells, cell lists in arbitrary (unsorted) order - the control layer never extracts a single patch and its partitioners
  // list cells in ascending order, but the interface takes any elements-at-rank graph. Oracles: every patch's local->base
  // maps (the target sets of the patch mesh part kept by the base node) agree with the geometry in every dimension, the
  // patches cover every cell once, neighbour lists are symmetric and complete, halos describe the same entities in the same
  // order on both sides - also after a joint refinement.
  template<typename Mesh_>
  void direct_extract(const wc::WorldCfg& cfg, wc::VertexDict& dict)
  {
    typedef Geometry::RootMeshNode<Mesh_> NodeType;
    constexpr int dim = Mesh_::shape_dim;
    std::ifstream ifs(std::string("/repo/data/meshes/") + cfg.mesh_file);
    Geometry::MeshFileReader reader;
    reader.add_stream(ifs);
    Geometry::MeshAtlas<Mesh_> atlas;
    std::unique_ptr<NodeType> base = NodeType::make_unique(nullptr, &atlas);
    reader.parse(*base, atlas, nullptr);
    // mostly tiny meshes (every rank count up to one cell per patch); one workload in six is large - patches of several
    // hundred cells and vertices, where per-entity counters and buffers of the graph code leave their small range
    const bool large = sim::cfg_int("dx_large", 0, 5) == 0;
    const int lvl = large ? (dim == 3 ? 3 : 5) : int(sim::cfg_int("dx_level", 0, dim == 3 ? 1 : 2));
    for(int l = 0; l < lvl; ++l) base = base->refine_unique(Geometry::AdaptMode::chart);
    const Index ne = base->get_mesh()->get_num_elements();
    static const int nps[8] = {1, 1, 2, 3, 4, 7, 16, 1000};
    Index np = Index(nps[sim::cfg_int("dx_np_idx", 0, 7)]);
    if(large) { np = Index(2 + sim::cfg_int("dx_large_np", 0, 3)); sim::probe("direct_extract_with_large_patches"); }
    if(np > ne) np = ne;
    const unsigned long long seed = (unsigned long long)sim::cfg_int("dx_seed", 0, 1 << 30);
    const std::vector<Index> owner = seeded_owner(ne, np, seed, int(sim::cfg_int("dx_mode", 0, 2)));
    // elements-at-rank graph with every list in seeded order (ascending, descending or shuffled)
    Adjacency::Graph graph(np, ne, ne);
    {
      unsigned long long s = seed * 6364136223846793005ull + 99;
      auto rnd = [&s](Index m) { s = s * 6364136223846793005ull + 1442695040888963407ull; return Index((s >> 33) % m); };
      const int order = int(sim::cfg_int("dx_order", 0, 2));
      Index k = 0;
      for(Index r = 0; r < np; ++r)
      {
        graph.get_domain_ptr()[r] = k;
        std::vector<Index> mine;
        for(Index c = 0; c < ne; ++c) if(owner[c] == r) mine.push_back(c);
        if(order == 1) std::reverse(mine.begin(), mine.end());
        if(order == 2) for(size_t i = mine.size(); i > 1; --i) std::swap(mine[i - 1], mine[rnd(Index(i))]);
        for(Index c : mine) graph.get_image_idx()[k++] = c;
      }
      graph.get_domain_ptr()[np] = k;
    }
    if(np == 1) sim::probe("single_patch_extracted_directly");
    const auto base_keys = wc::entity_keys(*base->get_mesh(), dict);
    std::vector<std::unique_ptr<NodeType>> patches(np);
    std::vector<std::vector<int>> neigh(np);
    for(Index r = 0; r < np; ++r) patches[r] = base->extract_patch(neigh[r], graph, int(r));
    const int refinements = large ? 0 : int(sim::cfg_int("dx_refine", 0, dim == 3 ? 1 : 2));
    std::map<Key, int> cell_count;
    for(int rl = 0; rl <= refinements; ++rl)
    {
      const std::string where = "direct extract_patch, " + std::to_string(np) + " patch(es) of " + std::to_string(ne) + " cells, refinement " + std::to_string(rl);
      std::vector<std::vector<std::vector<Key>>> pk(np);
      for(Index r = 0; r < np; ++r) pk[r] = wc::entity_keys(*patches[r]->get_mesh(), dict);
      if(rl == 0)
      {
        // local -> base maps against the geometry
        for(Index r = 0; r < np; ++r)
        {
          const auto* pp = base->get_patch(int(r));
          if(pp == nullptr) sim::fail("PATCH_MAP", where + ": the base node does not hold the mesh part of patch " + std::to_string(r));
          const auto trg = wc::part_targets<Mesh_>(*pp);
          for(int d = 0; d <= dim; ++d)
          {
            if(trg[size_t(d)].size() != pk[r][size_t(d)].size()) sim::fail("PATCH_MAP", where + ": patch " + std::to_string(r) + " has " + std::to_string(pk[r][size_t(d)].size()) + " entities of dimension " + std::to_string(d) + ", its map lists " + std::to_string(trg[size_t(d)].size()));
            for(size_t e = 0; e < trg[size_t(d)].size(); ++e)
              if(!(pk[r][size_t(d)][e] == base_keys[size_t(d)][trg[size_t(d)][e]]))
                sim::fail("PATCH_MAP", where + ": entity " + std::to_string(e) + " of dimension " + std::to_string(d) + " of patch " + std::to_string(r) + " is not the base-mesh entity " + std::to_string(trg[size_t(d)][e]) + " its local->base map names");
          }
        }
      }
      // cover
      cell_count.clear();
      size_t total = 0;
      for(Index r = 0; r < np; ++r) for(const Key& k : pk[r][size_t(dim)]) { ++cell_count[k]; ++total; }
      for(const auto& kc : cell_count) if(kc.second != 1) sim::fail("COVER", where + ": a cell is contained in " + std::to_string(kc.second) + " patches");
      Index expect = ne; for(int l = 0; l < rl; ++l) expect *= Index(Geometry::Intern::StandardRefinementTraits<typename Mesh_::ShapeType, dim>::count);
      if(total != size_t(expect)) sim::fail("COVER", where + ": the patches hold " + std::to_string(total) + " cells, the mesh has " + std::to_string(expect));
      // neighbours and halos
      for(Index r = 0; r < np; ++r)
      {
        {
          // the neighbour list describes a relation: a rank listed twice would exchange (and add) its halo twice
          std::set<int> once(neigh[r].begin(), neigh[r].end());
          if(once.size() != neigh[r].size()) sim::fail("NEIGHBOUR_DUPLICATE", where + ": the neighbour list of patch " + std::to_string(r) + " names a rank more than once");
          if(once.count(int(r))) sim::fail("NEIGHBOUR_DUPLICATE", where + ": patch " + std::to_string(r) + " lists itself as a neighbour");
        }
        std::set<Key> vr(pk[r][0].begin(), pk[r][0].end());
        for(Index q = 0; q < np; ++q)
        {
          if(q == r) continue;
          bool share = false;
          for(const Key& k : pk[q][0]) if(vr.count(k)) { share = true; break; }
          const bool listed = std::find(neigh[r].begin(), neigh[r].end(), int(q)) != neigh[r].end();
          // complete and symmetric, as the property says (a neighbour without a common vertex is not forbidden by it)
          if(share && !listed) sim::fail("NEIGHBOUR_MISSING", where + ": patches " + std::to_string(r) + " and " + std::to_string(q) + " share a vertex but are not neighbours");
          if(listed != (std::find(neigh[q].begin(), neigh[q].end(), int(r)) != neigh[q].end())) sim::fail("NEIGHBOUR_ASYMMETRIC", where + ": patch " + std::to_string(q) + (listed ? " is" : " is not") + " a neighbour of patch " + std::to_string(r) + " but not the other way round");
          if(!listed || !share || q < r) continue;
          const auto* hr = patches[r]->get_halo(int(q));
          const auto* hq = patches[q]->get_halo(int(r));
          if(hr == nullptr || hq == nullptr) sim::fail("HALO_MISSING", where + ": no halo between the neighbours " + std::to_string(r) + " and " + std::to_string(q));
          const auto tr = wc::part_targets<Mesh_>(*hr), tq = wc::part_targets<Mesh_>(*hq);
          for(int d = 0; d <= dim; ++d)
          {
            if(tr[size_t(d)].size() != tq[size_t(d)].size()) sim::fail("HALO_SET", where + ": halos of " + std::to_string(r) + " and " + std::to_string(q) + " differ in size in dimension " + std::to_string(d));
            for(size_t e = 0; e < tr[size_t(d)].size(); ++e)
              if(!(pk[r][size_t(d)][tr[size_t(d)][e]] == pk[q][size_t(d)][tq[size_t(d)][e]])) sim::fail("HALO_ORDER", where + ": halos of " + std::to_string(r) + " and " + std::to_string(q) + " name different entities at position " + std::to_string(e) + " of dimension " + std::to_string(d));
          }
        }
      }
      if(rl < refinements) for(Index r = 0; r < np; ++r) patches[r] = patches[r]->refine_unique(Geometry::AdaptMode::chart);
    }
    sim::probe("direct_extract_patch_workload");
  }

  // The built-in decomposition of the unit cube (Geometry::UnitCubePatchGenerator: one cell per rank, patches, neighbour
  // lists and halos are made directly, no extract_patch): all patches in one process, checked pairwise - neighbours
  // symmetric and complete (shared vertex <=> neighbour), both halos of a pair name the same vertices in the same order -
  // and again after joint refinements.
  template<typename Mesh_>
  void unit_cube_patches(wc::VertexDict& dict)
  {
    typedef Geometry::RootMeshNode<Mesh_> NodeType;
    constexpr int dim = Mesh_::shape_dim;
    // number of ranks: 2^(dim*k) cells of a k times refined cube
    const int k = (dim == 3) ? 1 + int(sim::cfg_int("ucp_k3", 0, 1)) : 1 + int(sim::cfg_int("ucp_k12", 0, dim == 1 ? 3 : 2));
    int nprocs = 1; for(int i = 0; i < dim * k; ++i) nprocs *= 2;
    std::vector<std::unique_ptr<NodeType>> nodes{size_t(nprocs)};
    std::vector<std::vector<int>> nbrs{size_t(nprocs)};
    for(int r = 0; r < nprocs; ++r) Geometry::UnitCubePatchGenerator<Mesh_>::create_unique(r, nprocs, nodes[size_t(r)], nbrs[size_t(r)]);
    const int refinements = int(sim::cfg_int("ucp_refine", 0, 2));
    for(int lvl = 0; lvl <= refinements; ++lvl)
    {
      if(lvl > 0) for(auto& n : nodes) n = n->refine_unique();
      // vertex keys per rank
      std::vector<std::set<long long>> vk{size_t(nprocs)};
      auto key_of = [&dict](const Mesh_& m, Index v) { double x[3] = {0, 0, 0}; for(int d = 0; d < Mesh_::world_dim; ++d) x[d] = double(m.get_vertex_set()[v][d]); return dict.get(x, Mesh_::world_dim); };
      for(int r = 0; r < nprocs; ++r) { const Mesh_& m = *nodes[size_t(r)]->get_mesh(); for(Index v = 0; v < m.get_num_entities(0); ++v) vk[size_t(r)].insert(key_of(m, v)); }
      for(int r = 0; r < nprocs; ++r)
      {
        const std::string where = "unit cube patches, " + std::to_string(nprocs) + " ranks, dimension " + std::to_string(dim) + ", refinement " + std::to_string(lvl) + ", rank " + std::to_string(r);
        std::multiset<int> ms(nbrs[size_t(r)].begin(), nbrs[size_t(r)].end());
        for(int q : nbrs[size_t(r)]) if(ms.count(q) > 1) sim::fail("NEIGHBOUR_DUPLICATE", where + ": neighbour " + std::to_string(q) + " listed twice");
        for(int q = 0; q < nprocs; ++q)
        {
          if(q == r) continue;
          bool share = false; for(long long kx : vk[size_t(r)]) if(vk[size_t(q)].count(kx)) { share = true; break; }
          const bool listed = ms.count(q) > 0;
          if(share && !listed) sim::fail("NEIGHBOUR_MISSING", where + ": shares a vertex with rank " + std::to_string(q) + ", which is not in its neighbour list");
          if(!share && listed) sim::fail("NEIGHBOUR_SPURIOUS", where + ": lists rank " + std::to_string(q) + " as neighbour without sharing a vertex with it");
          if(!listed) continue;
          if(std::find(nbrs[size_t(q)].begin(), nbrs[size_t(q)].end(), r) == nbrs[size_t(q)].end()) sim::fail("NEIGHBOUR_ASYMMETRIC", where + ": lists rank " + std::to_string(q) + ", which does not list it");
          if(q < r) continue;
          const auto* h_rq = nodes[size_t(r)]->get_halo(q); const auto* h_qr = nodes[size_t(q)]->get_halo(r);
          if(!h_rq || !h_qr) sim::fail("HALO_MISSING", where + ": no halo for neighbour " + std::to_string(q));
          const auto& t_rq = h_rq->template get_target_set<0>(); const auto& t_qr = h_qr->template get_target_set<0>();
          if(t_rq.get_num_entities() != t_qr.get_num_entities()) sim::fail("HALO_SET", where + ": the halos with rank " + std::to_string(q) + " have " + std::to_string(t_rq.get_num_entities()) + " and " + std::to_string(t_qr.get_num_entities()) + " vertices");
          std::set<long long> shared; for(long long kx : vk[size_t(r)]) if(vk[size_t(q)].count(kx)) shared.insert(kx);
          if(Index(shared.size()) != t_rq.get_num_entities()) sim::fail("HALO_SET", where + ": the halo with rank " + std::to_string(q) + " has " + std::to_string(t_rq.get_num_entities()) + " vertices, the patches share " + std::to_string(shared.size()));
          for(Index i = 0; i < t_rq.get_num_entities(); ++i)
          {
            const long long a = key_of(*nodes[size_t(r)]->get_mesh(), t_rq[i]), b = key_of(*nodes[size_t(q)]->get_mesh(), t_qr[i]);
            if(a != b) sim::fail("HALO_ORDER", where + ": entry " + std::to_string(i) + " of the vertex halos with rank " + std::to_string(q) + " names different vertices on the two sides");
            if(!shared.count(a)) sim::fail("HALO_SET", where + ": the halo with rank " + std::to_string(q) + " names a vertex the two patches do not share");
            ++CNT.halo_entities;
          }
          ++CNT.halo_pairs;
        }
      }
    }
    sim::probe("unit_cube_patch_generator_workload");
  }

  template<typename S_>
  void run_world(const wc::WorldCfg& cfg)
  {
    Shared sh;
    sh.ranks.resize(size_t(cfg.n));
    SH = &sh;
    if(sim::cfg_int("unit_cube_patches", 0, 7) == 0)
    {
      // hypercube meshes only (the generator decomposes the unit cube)
      typedef typename S_::MeshType MT;
      if constexpr(std::is_same<typename MT::ShapeType, Shape::Hypercube<MT::shape_dim>>::value)
      {
        sim::spawn("unit-cube-patches", []() { unit_cube_patches<MT>(SH->dict); });
        sim::run_go();
        SH = nullptr;
        return;
      }
    }
    if(sim::cfg_int("direct_extract", 0, 3) == 0)
    {
      const wc::WorldCfg c2 = cfg;
      sim::spawn("direct-extract", [c2]() { direct_extract<typename S_::MeshType>(c2, SH->dict); });
      sim::run_go();
      SH = nullptr;
      return;
    }
    if(cfg.parti == 3 && cfg.layers == 1 && cfg.n > 1 && sim::cfg_int("explicit_via_file", 0, 1) == 1)
    {
      typedef typename S_::MeshType MeshType;
      std::ifstream ifs(std::string("/repo/data/meshes/") + cfg.mesh_file);
      std::string text((std::istreambuf_iterator<char>(ifs)), std::istreambuf_iterator<char>());
      const size_t pe = text.rfind("</FeatMeshFile>");
      if(pe == std::string::npos) sim::fail("INFRA", "mesh file without closing root tag");
      const Index factor = Index(Geometry::Intern::StandardRefinementTraits<typename MeshType::ShapeType, MeshType::ShapeType::dimension>::count);
      Index ne = base_cells<MeshType>(text);
      int lvl = cfg.assign_level;
      for(int l = 0; l < lvl; ++l) ne *= factor;
      const Index np = Index(cfg.n);
      while(ne < np) { ne *= factor; ++lvl; }
      const std::vector<Index> best = seeded_owner(ne, np, cfg.assign_seed, cfg.adapt);
      std::string parts;
      // decoys: lower priority with the right size, right size but priority 0 (disabled), another size with a high priority
      parts += partition_xml("gen:low", 1, lvl, np, seeded_owner(ne, np, cfg.assign_seed + 17u, 2));
      parts += partition_xml("gen:best", 3, lvl, np, best);
      parts += partition_xml("gen:off", 0, lvl, np, seeded_owner(ne, np, cfg.assign_seed + 5u, 0));
      parts += partition_xml("gen:other-size", 9, lvl, np + 1u, seeded_owner(ne, np + 1u, cfg.assign_seed, 0));
      text.insert(pe, parts);
      // drop the shipped partitions of the same size: a shipped priority could legitimately win
      for(size_t p = text.find("<Partition name=\"auto\""); p != std::string::npos; p = text.find("<Partition name=\"auto\"", p))
      {
        size_t e = text.find("</Partition>", p);
        if(e == std::string::npos) break;
        text.erase(p, e + 12 - p);
      }
      sh.mesh_text = text;
      // name restriction (--parti-extern-name): none; a list with the best one and the wrong-size one (the best one has to
      // win although the other has the higher priority); a list without the best one (the low-priority one has to be taken)
      const int name_mode = int(sim::cfg_int("extern_names", 0, 2));
      std::vector<Index> want = best;
      sh.expect_name = "gen:best";
      if(name_mode == 1) sh.extern_names = {"gen:best", "gen:other-size", "gen:no-such-partition"};
      if(name_mode == 2) { sh.extern_names = {"gen:other-size", "gen:low"}; sh.expect_name = "gen:low"; want = seeded_owner(ne, np, cfg.assign_seed + 17u, 2); }
      sh.expect_graph.push_back(np); sh.expect_graph.push_back(ne);
      Index k = 0;
      for(Index r = 0; r < np; ++r) { sh.expect_graph.push_back(k); for(Index o : want) if(o == r) ++k; }
      sh.expect_graph.push_back(k);
      for(Index r = 0; r < np; ++r) for(Index c = 0; c < ne; ++c) if(want[c] == r) sh.expect_graph.push_back(c);
      sim::probe("extern_partition_generated");
    }
    sh.mesh_perm = int(sim::cfg_weighted("mesh_perm", {7, 1, 1, 1, 1, 1, 1, 1}));
    if(sh.mesh_perm != 0) sim::probe("world_with_mesh_permutation");
    simmpi::world_begin(cfg.n, [cfg](int r) { S_::rank_body(r, cfg); });
    // genetic partitioner: the simulated clock advances a seeded amount per read, so every rank does a different,
    // small number of rounds
    sim::run_go();
    simmpi::world_end();
    S_::verify(cfg);
    SH = nullptr;
  }
}

HarnessInfo harness_info() { return {"C12", "c12_domain", 6000000}; }
void harness_process_init(int argc, char** argv) { Runtime::initialize(argc, argv); }

std::string harness_run()
{
  sim::pthread_model_reset();
  sim::clock_reset();
  wc::WorldCfg cfg = sim::thorough() ? wc::draw_cfg(5, 3, true, true) : wc::draw_cfg(4, 2, true, true);
  static const uint64_t costs[4] = {200000, 500000, 1000000, 3000000};
  sim::clock_set_read_cost(costs[sim::cfg_int("clock_cost", 0, 3)]);
  CNT = Counters();
  typedef Geometry::ConformalMesh<FEAT::Shape::Hypercube<2>> Quad;
  typedef Geometry::ConformalMesh<FEAT::Shape::Simplex<2>> Tria;
  typedef Geometry::ConformalMesh<FEAT::Shape::Hypercube<3>> Hexa;
  typedef Geometry::ConformalMesh<FEAT::Shape::Simplex<3>> Tetra;
  switch(cfg.mesh)
  {
  case 0: case 2: case 6: case 8: run_world<ShapeKit<Quad>>(cfg); break;
  case 1: case 4: case 7: run_world<ShapeKit<Tria>>(cfg); break;
  case 3: run_world<ShapeKit<Hexa>>(cfg); break;
  case 5: run_world<ShapeKit<Tetra>>(cfg); break;
  }
  sim::clock_set_read_cost(0);
  if(cfg.layers > 1) sim::probe("multi_layer_world");
  if(cfg.mesh >= 6) sim::probe("mesh_with_chart_adapted_boundary");
  if(cfg.parti == 2) sim::probe("genetic_partitioner_world");
  if(cfg.parti == 3) sim::probe("explicit_assignment_world");
  return "{\"level_groups\":" + std::to_string(CNT.level_groups) + ",\"cells\":" + std::to_string(CNT.cells) + ",\"halo_pairs\":" + std::to_string(CNT.halo_pairs) +
    ",\"halo_entities\":" + std::to_string(CNT.halo_entities) + ",\"rank_pairs\":" + std::to_string(CNT.neighbor_pairs) + ",\"meshparts\":" + std::to_string(CNT.parts) + ",\"levels\":" + sim::jstr(cfg.levels) + "}";
}

int main(int argc, char** argv) { return harness_main(argc, argv); }
