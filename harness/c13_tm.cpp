// C13 / thread-multiple configuration (FEAT_MPI_THREAD_MULTIPLE): every asynchronous scalar reduction (all global dot
// products and norms go through one) starts a helper std::thread that posts the MPI_Iallreduce under a mutex, signals the
// rank thread through a condition variable and waits for the request while the rank thread goes on communicating. In this
// harness the helper threads are tasks of the same baton scheduler as the ranks (interposed pthread_create, mutex,
// condition variable), and act in SimMPI for the rank of their creator. Same kit and oracles as c13_scalar; worlds are kept
// small because every reduction of every rank is one more simulated thread.
#include "c13_kit.hpp"

#ifndef FEAT_MPI_THREAD_MULTIPLE
#error "this harness must be built in the thread-multiple configuration"
#endif

HarnessInfo harness_info() { return {"C13", "c13_tm", 30000000}; }
void harness_process_init(int argc, char** argv) { Runtime::initialize(argc, argv); }

std::string harness_run()
{
  sim::pthread_model_reset();
  sim::clock_reset();
  sim::fault_setup("SPURIOUS_WAKEUP", {10, 50, 200});   // the constructor waits on a condition variable for its helper thread
  RunCfg rc;
  rc.w = sim::thorough() ? wc::draw_cfg(4, 2, false) : wc::draw_cfg(3, 2, false);
  // at most 6 ranks: 16 ranks x (3..5 reductions per iteration) x 50 iterations would exceed the task table
  if(rc.w.n > 6) { static const int small[4] = {2, 3, 4, 6}; rc.w.n = small[rc.w.n % 4]; rc.w.layers = 1; rc.w.levels = std::to_string(rc.w.lvl_max) + " " + std::to_string(std::min(rc.w.lvl_max, 1)); }
  rc.solver = int(sim::cfg_weighted("solver", {3, 1, 4, 2}));   // PipePCG (three tickets in flight) more often
  rc.cycle = int(sim::cfg_weighted("cycle", {3, 1, 2}));
  rc.wait_order = int(sim::cfg_int("wait_order", 0, 1));
  rc.splitter = 0;
  static const uint64_t costs[4] = {200000, 500000, 1000000, 3000000};
  sim::clock_set_read_cost(rc.w.parti == 2 ? costs[sim::cfg_int("clock_cost", 0, 3)] : 0);
  CNT = Counters();
  typedef Geometry::ConformalMesh<FEAT::Shape::Hypercube<2>> Quad;
  typedef Geometry::ConformalMesh<FEAT::Shape::Simplex<2>> Tria;
  switch(rc.w.mesh)
  {
  case 0: case 2: Kit<Quad, Space::Lagrange1::Element>::run(rc); break;
  default: Kit<Tria, Space::Lagrange1::Element>::run(rc); break;
  }
  sim::clock_set_read_cost(0);
  if(rc.w.layers > 1) sim::probe("multi_layer_world");
  return "{\"sync0_dofs\":" + std::to_string(CNT.sync0_dofs) + ",\"shared_dofs\":" + std::to_string(CNT.shared_dofs) + ",\"matvec_entries\":" + std::to_string(CNT.matvec_entries) +
    ",\"solution_entries\":" + std::to_string(CNT.sol_entries) + ",\"solver_iterations\":" + std::to_string(CNT.iters) + ",\"levels\":" + std::to_string(CNT.levels) + ",\"transfer_entries\":" + std::to_string(CNT.transfer_entries) + "}";
}

int main(int argc, char** argv) { return harness_main(argc, argv); }
