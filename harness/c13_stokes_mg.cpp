// C13 / tuple vectors on a multi-level, possibly multi-layered hierarchy (Control::StokesBlockedSystemLevel, Lagrange-2
// velocity x Lagrange-1 pressure): on every level the tuple gate (sync_0 exact, frequencies), and between every pair of
// levels the system transfer (TupleDiagMatrix of the blocked velocity and the scalar pressure transfer) applied directly -
// restriction, truncation and prolongation of tuple vectors, across layer boundaries through the tuple muxer (join/split
// with one buffer per child that holds the velocity and the pressure part behind one another). Compared by DOF key with
// the one-process transfer between the same two refinement levels.
#include "world_common.hpp"

#include <kernel/analytic/lambda_function.hpp>
#include <kernel/assembly/interpolator.hpp>
#include <kernel/space/lagrange2/element.hpp>
#include <kernel/space/lagrange1/element.hpp>
#include <control/stokes_blocked.hpp>

#include <cmath>

using namespace FEAT;

namespace
{
  inline double h_int(long long key, int rank, int c) { return double(((unsigned long long)(key * 2654435761ll + rank * 40503ll + c * 977 + 12345) % 1048576ull)) - 524288.0; }
  inline double g_val(long long key, int salt, int c) { return double(((unsigned long long)(key * 1103515245ll + salt * 7919ll + c * 31 + 11) % 4096ull)) / 64.0 - 32.0; }

  struct LevelOut
  {
    int layer = -1, level = -1, layer_rank = -1, layer_size = 0;
    std::vector<long long> vkeys, pkeys;
    std::vector<double> s0v, s0p, fv, fp;
    std::vector<double> prol_v, prol_p, rest_v, rest_p, trunc_v, trunc_p;
  };
  struct RankOut { std::vector<LevelOut> levels; int cmax = 0, cmin = 0; std::string chosen; };
  struct Shared { wc::VertexDict dict; std::vector<RankOut> a, b; };
  Shared* SH = nullptr;
  struct Counters { uint64_t sync0 = 0, shared = 0, transfer = 0, levels = 0, muxed_pairs = 0; } CNT;

  typedef Geometry::ConformalMesh<FEAT::Shape::Hypercube<2>> MeshType;
  typedef Trafo::Standard::Mapping<MeshType> TrafoType;
  typedef Space::Lagrange2::Element<TrafoType> SpaceVeloType;
  typedef Space::Lagrange1::Element<TrafoType> SpacePresType;
  typedef Control::Domain::StokesDomainLevel<MeshType, TrafoType, SpaceVeloType, SpacePresType> DomainLevelType;
  typedef wc::SimPDC<DomainLevelType> DomainType;
  typedef Control::StokesBlockedSystemLevel<2, double, Index> SystemLevelType;
  typedef SystemLevelType::GlobalSystemVector GlobalSystemVector;
  typedef SystemLevelType::LocalSystemVector LocalSystemVector;

  template<typename Space_>
  std::vector<long long> dof_keys(const Space_& space)
  {
    auto fx = Analytic::create_lambda_function_scalar_2d([](double x, double) { return x; });
    auto fy = Analytic::create_lambda_function_scalar_2d([](double, double y) { return y; });
    LAFEM::DenseVector<double, Index> vx, vy;
    Assembly::Interpolator::project(vx, fx, space);
    Assembly::Interpolator::project(vy, fy, space);
    std::vector<long long> k(vx.size());
    for(Index i = 0; i < vx.size(); ++i) { double x[3] = {vx(i), vy(i), 0.0}; k[i] = SH->dict.get(x, 2); }
    return k;
  }

  struct RunCfg { wc::WorldCfg w; int trunc_v = 0, trunc_p = 0, shrink = 1; };

  LocalSystemVector make_vec(const LevelOut& l, int salt)
  {
    LocalSystemVector v;
    v.template at<0>() = SystemLevelType::LocalVeloVector(Index(l.vkeys.size()));
    v.template at<1>() = SystemLevelType::LocalPresVector(Index(l.pkeys.size()));
    for(Index d = 0; d < Index(l.vkeys.size()); ++d) { Tiny::Vector<double, 2> a; a[0] = g_val(l.vkeys[d], salt, 0); a[1] = g_val(l.vkeys[d], salt, 1); v.template at<0>()(d, a); }
    for(Index d = 0; d < Index(l.pkeys.size()); ++d) v.template at<1>()(d, g_val(l.pkeys[d], salt, 7));
    return v;
  }
  void store(const LocalSystemVector& v, std::vector<double>& ov, std::vector<double>& op)
  {
    for(Index d = 0; d < v.template at<0>().size(); ++d) { ov.push_back(v.template at<0>()(d)[0]); ov.push_back(v.template at<0>()(d)[1]); }
    for(Index d = 0; d < v.template at<1>().size(); ++d) op.push_back(v.template at<1>()(d));
  }

  void rank_body(int wrank, const RunCfg& rc, bool reference, int ref_max, int ref_min, std::vector<RankOut>& outs)
  {
    const wc::WorldCfg& cfg = rc.w;
    Dist::Comm comm = Dist::Comm::world();
    DomainType domain(comm, true);
    if(reference) { domain.select_partitioners(true, true, true, false, 0, 0, 1); domain.set_desired_levels(ref_max, ref_min); }
    else
    {
      switch(cfg.parti)
      {
      case 0: domain.select_partitioners(true, true, true, false, 0, 0, cfg.rank_elems); break;
      case 1: case 2: domain.select_partitioners(false, false, true, false, 0, 0, cfg.rank_elems); break;
      case 3: domain.select_partitioners(false, false, true, false, 0, 0, 1);
        domain.use_explicit = true; domain.explicit_level = cfg.assign_level; domain.explicit_seed = cfg.assign_seed; domain.explicit_mode = cfg.adapt; break;
      }
      domain.set_desired_levels(String(cfg.levels));
    }
    std::deque<String> files; files.push_back(String(cfg.mesh_file));
    domain.create(files, String("/repo/data/meshes"));
    domain.add_trafo_mesh_part_charts();
    RankOut& out = outs[size_t(wrank)];
    out.chosen = domain.format_chosen_levels();
    out.cmax = domain.get_chosen_levels().front().first;
    out.cmin = domain.get_chosen_levels().back().first;

    const Index num_levels = Index(domain.size_physical());
    std::deque<std::shared_ptr<SystemLevelType>> system_levels;
    for(Index i = 0; i < num_levels; ++i) system_levels.push_back(std::make_shared<SystemLevelType>());
    const String cubature("auto-degree:5");
    for(Index i = 0; i < num_levels; ++i) { domain.at(i)->domain_asm.compile_all_elements(); system_levels.at(i)->assemble_gates(domain.at(i)); }
    for(Index i = 0; (i < domain.size_physical()) && ((i + 1) < domain.size_virtual()); ++i)
    {
      system_levels.at(i)->assemble_coarse_muxers(domain.at(i + 1));
      if((i + 1) < domain.size_physical()) system_levels.at(i)->assemble_transfers(*system_levels.at(i + 1), domain.at(i), domain.at(i + 1), cubature, rc.trunc_v != 0, rc.trunc_p != 0, rc.shrink != 0);
      else system_levels.at(i)->assemble_transfers(domain.at(i), domain.at(i + 1), cubature, rc.trunc_v != 0, rc.trunc_p != 0, rc.shrink != 0);
    }

    for(Index i = 0; i < num_levels; ++i)
    {
      LevelOut lo;
      const auto& vl = domain.at(i);
      lo.layer = vl.layer().get_layer_index(); lo.level = vl->get_level_index();
      lo.layer_rank = vl.layer().comm().rank(); lo.layer_size = vl.layer().comm().size();
      lo.vkeys = dof_keys(vl->space_velo);
      lo.pkeys = dof_keys(vl->space_pres);
      const auto& gate = system_levels.at(i)->gate_sys;
      LocalSystemVector v0 = make_vec(lo, 1);
      for(Index d = 0; d < Index(lo.vkeys.size()); ++d) { Tiny::Vector<double, 2> a; a[0] = h_int(lo.vkeys[d], lo.layer_rank, 0); a[1] = h_int(lo.vkeys[d], lo.layer_rank, 1); v0.template at<0>()(d, a); }
      for(Index d = 0; d < Index(lo.pkeys.size()); ++d) v0.template at<1>()(d, h_int(lo.pkeys[d], lo.layer_rank, 7));
      gate.sync_0(v0);
      store(v0, lo.s0v, lo.s0p);
      store(gate.get_freqs(), lo.fv, lo.fp);
      out.levels.push_back(std::move(lo));
    }

    for(Index i = 0; (i < domain.size_physical()) && ((i + 1) < domain.size_virtual()); ++i)
    {
      const auto& tr = system_levels.at(i)->transfer_sys;
      LevelOut& lf = out.levels.at(i);
      GlobalSystemVector vf(&system_levels.at(i)->gate_sys, make_vec(lf, 41)), vp(&system_levels.at(i)->gate_sys, make_vec(lf, 43));
      vp.format();
      if((i + 1) < domain.size_physical())
      {
        LevelOut& lc = out.levels.at(i + 1);
        GlobalSystemVector vc(&system_levels.at(i + 1)->gate_sys, make_vec(lc, 42)), vr(&system_levels.at(i + 1)->gate_sys, make_vec(lc, 44));
        vr.format();
        tr.rest(vf, vr);
        store(vr.local(), lc.rest_v, lc.rest_p);
        // truncation as the applications use it: through the transfer of the single component it was assembled for
        if(rc.trunc_v)
        {
          SystemLevelType::GlobalVeloVector tf(&system_levels.at(i)->gate_velo, vf.local().template at<0>().clone()), tc(&system_levels.at(i + 1)->gate_velo, vr.local().template at<0>().clone());
          tc.format();
          system_levels.at(i)->transfer_velo.trunc(tf, tc);
          for(Index d = 0; d < tc.local().size(); ++d) { lc.trunc_v.push_back(tc.local()(d)[0]); lc.trunc_v.push_back(tc.local()(d)[1]); }
        }
        if(rc.trunc_p)
        {
          SystemLevelType::GlobalPresVector tf(&system_levels.at(i)->gate_pres, vf.local().template at<1>().clone()), tc(&system_levels.at(i + 1)->gate_pres, vr.local().template at<1>().clone());
          tc.format();
          system_levels.at(i)->transfer_pres.trunc(tf, tc);
          for(Index d = 0; d < tc.local().size(); ++d) lc.trunc_p.push_back(tc.local()(d));
        }
        tr.prol(vp, vc);
      }
      else
      {
        tr.rest_send(vf);
        if(rc.trunc_v) { SystemLevelType::GlobalVeloVector tf(&system_levels.at(i)->gate_velo, vf.local().template at<0>().clone()); system_levels.at(i)->transfer_velo.trunc_send(tf); }
        if(rc.trunc_p) { SystemLevelType::GlobalPresVector tf(&system_levels.at(i)->gate_pres, vf.local().template at<1>().clone()); system_levels.at(i)->transfer_pres.trunc_send(tf); }
        tr.prol_recv(vp);
      }
      store(vp.local(), lf.prol_v, lf.prol_p);
    }
    comm.barrier();
  }

  void verify(const RunCfg& rc)
  {
    const std::vector<RankOut>& A = SH->a; const RankOut& B = SH->b[0];
    for(const RankOut& r : A) if(r.chosen != A[0].chosen) sim::fail("CHOSEN_LEVELS_DIFFER", "ranks disagree on chosen levels");
    std::map<int, const LevelOut*> bl;
    for(const LevelOut& l : B.levels) bl[l.level] = &l;
    std::map<std::pair<int, int>, std::vector<const LevelOut*>> groups;
    for(const RankOut& r : A) for(const LevelOut& l : r.levels) groups[{l.layer, l.level}].push_back(&l);
    for(const auto& g : groups)
    {
      ++CNT.levels;
      const std::string where = "layer " + std::to_string(g.first.first) + " level " + std::to_string(g.first.second);
      if(int(g.second.size()) != g.second.front()->layer_size) sim::fail("LAYER_INCOMPLETE", where);
      auto it = bl.find(g.first.second);
      if(it == bl.end()) sim::fail("INFRA", "the one-process run lacks a level of the distributed run");
      const LevelOut& b = *it->second;
      std::map<long long, size_t> bv, bp;
      for(size_t d = 0; d < b.vkeys.size(); ++d) bv[b.vkeys[d]] = d;
      for(size_t d = 0; d < b.pkeys.size(); ++d) bp[b.pkeys[d]] = d;
      std::map<long long, std::vector<int>> sv, sp;
      for(const LevelOut* l : g.second) { for(long long k : l->vkeys) sv[k].push_back(l->layer_rank); for(long long k : l->pkeys) sp[k].push_back(l->layer_rank); }
      if(sv.size() != bv.size() || sp.size() != bp.size()) sim::fail("DOF_COVER", where + ": the patches do not hold exactly the DOFs of the one-process discretisation");
      auto scale = [](const std::vector<double>& v) { double m = 1e-300; for(double x : v) m = std::max(m, std::abs(x)); return m; };
      for(const LevelOut* l : g.second)
      {
        // comp: 0 velocity (two values per DOF), 1 pressure
        auto cmp = [&](const std::vector<double>& mine, const std::vector<double>& ref, int comp, const char* cls, const char* what)
        {
          if(mine.empty()) return;
          if(ref.empty()) sim::fail("INFRA", std::string("the one-process run has no ") + what + " on level " + std::to_string(l->level));
          const double sc = scale(ref);
          const std::vector<long long>& keys = comp == 0 ? l->vkeys : l->pkeys;
          const std::map<long long, size_t>& bi = comp == 0 ? bv : bp;
          const size_t bs = comp == 0 ? 2 : 1;
          for(size_t d = 0; d < keys.size(); ++d)
          {
            auto f = bi.find(keys[d]);
            if(f == bi.end()) sim::fail("DOF_KEY_UNKNOWN", where + ": DOF unknown to the one-process run");
            for(size_t c = 0; c < bs; ++c)
            {
              ++CNT.transfer;
              if(!(std::abs(mine[bs * d + c] - ref[bs * f->second + c]) <= 1e-11 * sc))
                sim::fail(cls, std::string(what) + " of a tuple vector, " + (comp == 0 ? "velocity" : "pressure") + " part, onto " + where + " on layer rank " + std::to_string(l->layer_rank) + " of " + std::to_string(l->layer_size) + ": " + std::to_string(mine[bs * d + c]) + ", one-process value " + std::to_string(ref[bs * f->second + c]));
            }
          }
        };
        for(size_t d = 0; d < l->vkeys.size(); ++d)
        {
          const std::vector<int>& S = sv[l->vkeys[d]];
          ++CNT.sync0; if(S.size() > 1) ++CNT.shared;
          for(size_t c = 0; c < 2; ++c)
          {
            double e0 = 0; for(int q : S) e0 += h_int(l->vkeys[d], q, int(c));
            if(l->s0v[2 * d + c] != e0) sim::fail("SYNC0", where + ": tuple sync_0, velocity part: got " + std::to_string(l->s0v[2 * d + c]) + ", exact sum is " + std::to_string(e0));
            if(!(std::abs(l->fv[2 * d + c] - 1.0 / double(S.size())) <= 1e-15)) sim::fail("GATE_FREQS", where + ": wrong velocity frequency in the system gate");
          }
        }
        for(size_t d = 0; d < l->pkeys.size(); ++d)
        {
          const std::vector<int>& S = sp[l->pkeys[d]];
          ++CNT.sync0; if(S.size() > 1) ++CNT.shared;
          double e0 = 0; for(int q : S) e0 += h_int(l->pkeys[d], q, 7);
          if(l->s0p[d] != e0) sim::fail("SYNC0", where + ": tuple sync_0, pressure part: got " + std::to_string(l->s0p[d]) + ", exact sum is " + std::to_string(e0));
          if(!(std::abs(l->fp[d] - 1.0 / double(S.size())) <= 1e-15)) sim::fail("GATE_FREQS", where + ": wrong pressure frequency in the system gate");
        }
        cmp(l->prol_v, b.prol_v, 0, "TRANSFER_PROL", "prolongation");
        cmp(l->prol_p, b.prol_p, 1, "TRANSFER_PROL", "prolongation");
        cmp(l->rest_v, b.rest_v, 0, "TRANSFER_REST", "restriction");
        cmp(l->rest_p, b.rest_p, 1, "TRANSFER_REST", "restriction");
        // a truncation matrix exists only for the parts it was requested for; the other part of the result is unspecified
        // and only without `shrink`, which drops small entries of the local matrices partition-dependently (see c13_kit.hpp)
        if(rc.trunc_v && rc.shrink == 0) cmp(l->trunc_v, b.trunc_v, 0, "TRANSFER_TRUNC", "truncation");
        if(rc.trunc_p && rc.shrink == 0) cmp(l->trunc_p, b.trunc_p, 1, "TRANSFER_TRUNC", "truncation");
      }
    }
  }
}

HarnessInfo harness_info() { return {"C13", "c13_stokes_mg", 60000000}; }
void harness_process_init(int argc, char** argv) { Runtime::initialize(argc, argv); }

std::string harness_run()
{
  sim::pthread_model_reset();
  sim::clock_reset();
  RunCfg rc;
  rc.w = sim::thorough() ? wc::draw_cfg(4, 2, false) : wc::draw_cfg(3, 2, false);
  wc::WorldCfg& w = rc.w;
  if(w.mesh != 0 && w.mesh != 2) { w.mesh = 0; w.mesh_file = "unit-square-quad.xml"; }
  if(w.parti == 2) w.parti = 1;
  rc.trunc_v = int(sim::cfg_int("trunc_velo", 0, 1));
  rc.trunc_p = int(sim::cfg_int("trunc_pres", 0, 1));
  rc.shrink = int(sim::cfg_int("transfer_shrink", 0, 1));
  CNT = Counters();
  Shared sh; SH = &sh;
  sh.a.resize(size_t(w.n)); sh.b.resize(1);
  simmpi::world_begin(w.n, [rc](int r) { rank_body(r, rc, false, 0, 0, SH->a); });
  sim::run_go();
  simmpi::world_end();
  const int cmax = sh.a[0].cmax, cmin = sh.a[0].cmin;
  simmpi::world_begin(1, [rc, cmax, cmin](int r) { rank_body(r, rc, true, cmax, cmin, SH->b); });
  sim::run_go();
  simmpi::world_end();
  verify(rc);
  if(w.layers > 1) sim::probe("multi_layer_world");
  SH = nullptr;
  return "{\"sync0_dofs\":" + std::to_string(CNT.sync0) + ",\"shared_dofs\":" + std::to_string(CNT.shared) + ",\"transfer_entries\":" + std::to_string(CNT.transfer) + ",\"levels\":" + std::to_string(CNT.levels) + ",\"level_spec\":" + sim::jstr(w.levels) + "}";
}

int main(int argc, char** argv) { return harness_main(argc, argv); }
