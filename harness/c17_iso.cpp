// C17 with an isoparametric trafo whose boundary is linked to a SurfaceMesh chart (see c17_asm.cpp, C17_ISOPARAM)
#define C17_ISOPARAM 1
#include "c17_asm.cpp"
