// C13 / discontinuous spaces (P0/Q0): no DOF lives on a patch interface, so the gates have no neighbours although
// the communicator has several ranks - global reductions must still be global. Mass-matrix problem, same kit.
#include <kernel/space/discontinuous/element.hpp>
#include "c13_kit.hpp"

namespace
{
  template<typename T_> using DG0 = Space::Discontinuous::Element<T_, Space::Discontinuous::Variant::StdPolyP<0>>;
}

HarnessInfo harness_info() { return {"C13", "c13_dg", 60000000}; }
void harness_process_init(int argc, char** argv) { Runtime::initialize(argc, argv); }

std::string harness_run()
{
  sim::pthread_model_reset();
  sim::clock_reset();
  RunCfg rc;
  rc.w = sim::thorough() ? wc::draw_cfg(5, 2, false) : wc::draw_cfg(3, 2, false);
  rc.solver = int(sim::cfg_weighted("solver", {4, 2, 2, 1}));
  rc.cycle = int(sim::cfg_weighted("cycle", {3, 1, 2}));
  rc.wait_order = int(sim::cfg_int("wait_order", 0, 1));
  rc.splitter = int(sim::cfg_int("splitter", 0, 1));
  static const uint64_t costs[4] = {200000, 500000, 1000000, 3000000};
  sim::clock_set_read_cost(rc.w.parti == 2 ? costs[sim::cfg_int("clock_cost", 0, 3)] : 0);
  CNT = Counters();
  typedef Geometry::ConformalMesh<FEAT::Shape::Hypercube<2>> Quad;
  typedef Geometry::ConformalMesh<FEAT::Shape::Simplex<2>> Tria;
  switch(rc.w.mesh)
  {
  case 0: case 2: Kit<Quad, DG0, true>::run(rc); break;
  default: Kit<Tria, DG0, true>::run(rc); break;
  }
  sim::clock_set_read_cost(0);
  if(rc.w.layers > 1) sim::probe("multi_layer_world");
  if(CNT.three_way > 0) sim::probe("dof_shared_by_three_or_more_ranks");
  return "{\"sync0_dofs\":" + std::to_string(CNT.sync0_dofs) + ",\"shared_dofs\":" + std::to_string(CNT.shared_dofs) + ",\"three_way_dofs\":" + std::to_string(CNT.three_way) +
    ",\"matvec_entries\":" + std::to_string(CNT.matvec_entries) + ",\"solution_entries\":" + std::to_string(CNT.sol_entries) + ",\"solver_iterations\":" + std::to_string(CNT.iters) +
    ",\"levels\":" + std::to_string(CNT.levels) + ",\"transfer_entries\":" + std::to_string(CNT.transfer_entries) + ",\"level_spec\":" + sim::jstr(rc.w.levels) + "}";
}

int main(int argc, char** argv) { return harness_main(argc, argv); }
