// Self-test of the race flavour (sim/race_rt.cpp + the pthread model): small threaded programs that synchronise through
// every idiom the detector claims to understand must run clean under all schedules; their deliberately broken twins must
// end as DATA_RACE in every run, whatever the schedule (the detector judges happens-before, not the interleaving).
// Scenario from the environment (RACE_SELFTEST_SCENARIO): constant per process. tools/selftest_race.py drives it.
#include "runner.hpp"

#include <atomic>
#include <condition_variable>
#include <future>
#include <memory>
#include <mutex>
#include <shared_mutex>
#include <thread>
#include <vector>
#include <cstdlib>

namespace
{
  int g_scenario = 0;

  struct Box { long a = 0, b = 0; std::vector<long> v; };

  const std::vector<long>& lazy_table()
  {
    static const std::vector<long> t = []() { std::vector<long> x; for(long i = 0; i < 64; ++i) x.push_back(i * i); return x; }();
    return t;
  }

  void scenario(int sc, int nthreads, int rounds)
  {
    switch(sc)
    {
    case 0:   // counter under a mutex
    case 100: // ... and without it
      {
        std::mutex m; long counter = 0;
        std::vector<std::thread> th;
        for(int t = 0; t < nthreads; ++t) th.emplace_back([&, sc]() { for(int r = 0; r < rounds; ++r) { if(sc == 0) { std::lock_guard<std::mutex> l(m); ++counter; } else { sim::yield("racy_increment"); ++counter; } } });
        for(auto& t : th) t.join();
        if(sc == 0 && counter != long(nthreads) * rounds) sim::fail("SELFTEST", "counter under a mutex lost an update");
      }
      break;
    case 1:   // publication through a condition variable
    case 101: // flag written outside the lock
      {
        std::mutex m; std::condition_variable cv; bool ready = false; Box box;
        std::thread prod([&, sc]() { box.a = 7; box.v.assign(10, 3); if(sc == 1) { std::lock_guard<std::mutex> l(m); ready = true; } else ready = true; cv.notify_all(); });
        std::vector<std::thread> cons;
        for(int t = 0; t < nthreads; ++t) cons.emplace_back([&]() { std::unique_lock<std::mutex> l(m); cv.wait(l, [&]() { return ready; }); if(box.a != 7 || box.v.size() != 10) sim::fail("SELFTEST", "consumer saw unpublished data"); });
        prod.join(); for(auto& t : cons) t.join();
      }
      break;
    case 2:   // std::call_once
      {
        std::once_flag once; Box box;
        std::vector<std::thread> th;
        for(int t = 0; t < nthreads; ++t) th.emplace_back([&, t]() { std::call_once(once, [&]() { sim::yield("in_once"); box.a = 11; box.v.assign(5, 1); }); if(box.a != 11 || box.v.size() != 5) sim::fail("SELFTEST", "call_once: initialised data not visible"); (void)t; });
        for(auto& t : th) t.join();
      }
      break;
    case 3:   // reader-writer lock
    case 103: // writer without the lock
      {
        std::shared_mutex rw; Box box;
        std::vector<std::thread> th;
        for(int t = 0; t < nthreads; ++t) th.emplace_back([&, t, sc]()
        {
          for(int r = 0; r < rounds; ++r)
          {
            if(t == 0) { if(sc == 3) { std::unique_lock<std::shared_mutex> l(rw); ++box.a; ++box.b; } else { ++box.a; ++box.b; } }
            else { std::shared_lock<std::shared_mutex> l(rw); if(box.a != box.b) sim::fail("SELFTEST", "reader saw a half-written pair"); }
          }
        });
        for(auto& t : th) t.join();
      }
      break;
    case 4:   // release/acquire flag
    case 104: // plain flag
      {
        std::atomic<int> flag{0}; int plain_flag = 0; Box box;
        std::thread prod([&, sc]() { box.a = 5; box.b = 6; if(sc == 4) flag.store(1, std::memory_order_release); else plain_flag = 1; });
        std::thread cons([&, sc]()
        {
          for(int spin = 0; spin < 100000; ++spin)
          {
            const int f = sc == 4 ? flag.load(std::memory_order_acquire) : plain_flag;
            if(f) { if(box.a != 5 || box.b != 6) sim::fail("SELFTEST", "acquire did not see released data"); return; }
            sim::yield("spin");
          }
        });
        prod.join(); cons.join();
      }
      break;
    case 5:   // function-local static initialised by whichever thread comes first
      {
        std::vector<std::thread> th;
        for(int t = 0; t < nthreads; ++t) th.emplace_back([t]() { const auto& tab = lazy_table(); if(tab[size_t(t) % 64] != long(t % 64) * long(t % 64)) sim::fail("SELFTEST", "static table wrong"); });
        for(auto& t : th) t.join();
      }
      break;
    case 6:   // heap blocks travel between threads through the allocator only (no sharing): must not be reported
      {
        std::vector<std::thread> th;
        for(int t = 0; t < nthreads; ++t) th.emplace_back([rounds, t]() { for(int r = 0; r < rounds; ++r) { std::unique_ptr<Box> b(new Box); b->a = t; b->v.assign(size_t(8 + r), long(t)); sim::yield("alloc"); } });
        for(auto& t : th) t.join();
      }
      break;
    case 7:   // shared_ptr reference counts (atomics inside libstdc++ headers), object destroyed by the last owner
      {
        auto sp = std::make_shared<Box>(); sp->a = 1;
        std::vector<std::thread> th;
        for(int t = 0; t < nthreads; ++t) th.emplace_back([sp]() { std::shared_ptr<Box> mine = sp; sim::yield("hold"); if(mine->a != 1) sim::fail("SELFTEST", "shared object changed"); });
        sp.reset();
        for(auto& t : th) t.join();
      }
      break;
    case 8:   // fork/join phases: results written by workers, read by the master after join, again written in the next phase
      {
        std::vector<long> res(size_t(nthreads), 0);
        for(int r = 0; r < rounds; ++r)
        {
          std::vector<std::thread> th;
          for(int t = 0; t < nthreads; ++t) th.emplace_back([&res, t, r]() { res[size_t(t)] += r + t; });
          for(auto& t : th) t.join();
          long sum = 0; for(long x : res) sum += x; (void)sum;
        }
      }
      break;
    case 9:   // promise/future hand-over of a heap object (libstdc++ futex wait)
      {
        std::vector<std::promise<std::unique_ptr<Box>>> prom{size_t(nthreads)};
        std::vector<std::future<std::unique_ptr<Box>>> fut;
        for(auto& p : prom) fut.push_back(p.get_future());
        std::vector<std::thread> th;
        for(int t = 0; t < nthreads; ++t) th.emplace_back([&prom, t]() { std::unique_ptr<Box> b(new Box); b->a = t; b->v.assign(4, long(t)); sim::yield("work"); prom[size_t(t)].set_value(std::move(b)); });
        for(int t = 0; t < nthreads; ++t) { std::unique_ptr<Box> b = fut[size_t(t)].get(); if(b->a != t || b->v.size() != 4) sim::fail("SELFTEST", "future delivered the wrong object"); }
        for(auto& t : th) t.join();
      }
      break;
    case 108: // master reads a worker's result before joining it
      {
        long res = 0;
        std::thread w([&]() { sim::yield("work"); res = 42; });
        sim::yield("master");
        volatile long seen = res; (void)seen;
        w.join();
      }
      break;
    case 109: // two readers are fine, a third thread writing is not (read-write race against a remembered reader)
      {
        long shared = 3;
        std::thread r1([&]() { volatile long s = shared; (void)s; });
        std::thread r2([&]() { volatile long s = shared; (void)s; });
        std::thread w([&]() { sim::yield("w"); shared = 4; });
        r1.join(); r2.join(); w.join();
      }
      break;
    default: sim::fail("INFRA", "unknown self-test scenario");
    }
  }
}

HarnessInfo harness_info() { return {"SELFTEST", "race_selftest", 2000000}; }
void harness_process_init(int, char**) { if(const char* s = getenv("RACE_SELFTEST_SCENARIO")) g_scenario = atoi(s); }

std::string harness_run()
{
  sim::pthread_model_reset();
  sim::clock_reset();
  sim::fault_setup("SPURIOUS_WAKEUP", {0, 50, 200});
  const int nthreads = int(sim::cfg_int("threads", 2, 5));
  const int rounds = int(sim::cfg_int("rounds", 1, 6));
  const int sc = g_scenario;
  sim::spawn("master", [=]() { scenario(sc, nthreads, rounds); });
  sim::run_go();
  return "{\"scenario\":" + std::to_string(sc) + "}";
}

int main(int argc, char** argv) { return harness_main(argc, argv); }
