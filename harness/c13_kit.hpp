// C13 kit (shared by c13_scalar.cpp and c13_q2.cpp): distributed vectors, operators and solves on n simulated ranks equal the one-process results.
// World A = n ranks (configuration, schedule and legal MPI nondeterminism drawn from the run PRNG) runs the real
// control/assembly/solver stack as applications/poisson_dirichlet.cpp does; world B = the same program on ONE
// rank with the same level range. Degrees of freedom are identified across ranks by geometric keys; all
// comparisons are made by the harness, which sees all ranks (DESIGN.md 5.4).
#pragma once
#include "world_common.hpp"
#include <kernel/analytic/lambda_function.hpp>
#include <kernel/assembly/interpolator.hpp>

#include <kernel/analytic/common.hpp>
#include <kernel/assembly/common_functionals.hpp>
#include <kernel/assembly/common_operators.hpp>
#include <kernel/assembly/domain_assembler_helpers.hpp>
#include <kernel/solver/pcg.hpp>
#include <kernel/solver/richardson.hpp>
#include <kernel/solver/jacobi_precond.hpp>
#include <kernel/solver/multigrid.hpp>
#include <kernel/solver/pipepcg.hpp>
#include <kernel/solver/bicgstab.hpp>
#include <control/scalar_basic.hpp>
#include <control/asm/mean_filter_asm.hpp>

#include <cmath>

using namespace FEAT;

namespace
{
  inline double h_int(long long key, int rank) { return double(((unsigned long long)(key * 2654435761ll + rank * 40503ll + 12345) % 1048576ull)) - 524288.0; }
  inline double g_val(long long key, int salt) { return double(((unsigned long long)(key * 1103515245ll + salt * 7919ll + 11) % 4096ull)) / 64.0 - 32.0; }

  struct LevelOut
  {
    int layer = -1, level = -1, layer_rank = -1, layer_size = 0;
    std::vector<long long> keys;
    std::vector<double> s0_out, s0b_out, s0c_out, s1_out, freqs;
    // grid transfer applied directly: prolongation of the next coarser level's test vector onto this level, restriction
    // and truncation of the next finer level's test vector onto this level (empty where there is no such neighbour level)
    std::vector<double> prol, rest, trunc;
    Index num_global_dofs = 0;
  };

  struct RankOut
  {
    std::vector<LevelOut> levels;
    // finest level
    std::vector<long long> keys;
    std::vector<double> ax, ax3, diag, lump, rhs, sol, mf_sol, mf_rhs;
    std::vector<std::pair<std::pair<long long, long long>, double>> m1;   // type-1 matrix entries by (row key, column key)
    std::vector<long long> base_keys; std::vector<double> joined, split_out;   // base splitter (root only: base_keys/joined)
    double dot = 0, norm2 = 0, gmax = 0, gmin = 0, gsum = 0;
    double vmax_abs = 0, vmin_abs = 0, vmax = 0, vmin = 0;   // element reductions of the test vector
    int status = -1; Index iters = 0; double def_init = 0, def_final = 0, h0 = 0, h1 = 0;
    // reference world only: how far a rounding-size perturbation of the right-hand side moves the same solve (noise floor)
    double noise_sol = 0, noise_def = 0, noise_h0 = 0, noise_h1 = 0; long noise_iters = 0;
    int cmax = 0, cmin = 0;
    std::string chosen;
  };

  struct Shared { wc::VertexDict dict; std::vector<RankOut> a, b; };
  Shared* SH = nullptr;

  struct Counters { uint64_t sync0_dofs = 0, shared_dofs = 0, three_way = 0, matvec_entries = 0, sol_entries = 0, iters = 0, levels = 0, transfer_entries = 0; } CNT;

  struct RunCfg { wc::WorldCfg w; int solver = 0; int cycle = 0; int wait_order = 0; int splitter = 0; int trunc = 0; int shrink = 1; int moved_ticket = 0; int mesh_perm = 0; };

  // mass_op_: assemble the mass matrix / force functional instead of the Laplace problem (for spaces without gradients
  // across cells, e.g. discontinuous P0, whose gates have no neighbours at all)
  template<typename Mesh_, template<typename> class Element_, bool mass_op_ = false>
  struct Kit
  {
    typedef Mesh_ MeshType;
    typedef Trafo::Standard::Mapping<MeshType> TrafoType;
    typedef Element_<TrafoType> SpaceType;
    typedef Control::Domain::SimpleDomainLevel<MeshType, TrafoType, SpaceType> DomainLevelType;
    typedef wc::SimPDC<DomainLevelType> DomainType;
    typedef Control::ScalarUnitFilterSystemLevel<double, Index> SystemLevelType;
    typedef typename SystemLevelType::GlobalSystemVector GlobalSystemVector;
    typedef typename SystemLevelType::LocalSystemVector LocalVector;
    static constexpr int dim = MeshType::shape_dim;

    // DOF keys through FEAT's own interpolation of the coordinate functions: the node functionals of the Lagrange
    // spaces are point evaluations, so interpolating x and y yields the location of every DOF
    static std::vector<long long> dof_keys(const SpaceType& space)
    {
      auto fx = Analytic::create_lambda_function_scalar_2d([](double x, double) { return x; });
      auto fy = Analytic::create_lambda_function_scalar_2d([](double, double y) { return y; });
      LocalVector vx, vy;
      Assembly::Interpolator::project(vx, fx, space);
      Assembly::Interpolator::project(vy, fy, space);
      std::vector<long long> k(vx.size());
      for(Index i = 0; i < vx.size(); ++i)
      {
        double x[3] = {vx(i), vy(i), 0.0};
        k[i] = SH->dict.get(x, 2);
      }
      std::set<long long> uniq(k.begin(), k.end());
      if(uniq.size() != k.size()) sim::fail("INFRA", "DOF locations are not unique on a patch");
      return k;
    }

    static void rank_body(int wrank, const RunCfg& rc, bool reference, int ref_max, int ref_min, std::vector<RankOut>& outs)
    {
      const wc::WorldCfg& cfg = rc.w;
      Dist::Comm comm = Dist::Comm::world();
      DomainType domain(comm, true);
      if(reference)
      {
        domain.select_partitioners(true, true, true, false, 0, 0, 1);
        domain.set_desired_levels(ref_max, ref_min);
      }
      else
      {
        switch(cfg.parti)
        {
        case 0: domain.select_partitioners(true, true, true, false, 0, 0, cfg.rank_elems); break;
        case 1: domain.select_partitioners(false, false, true, false, 0, 0, cfg.rank_elems); break;
        case 2: domain.select_partitioners(false, false, true, true, 0.0005, 0.0005, cfg.rank_elems); break;
        case 3: domain.select_partitioners(false, false, true, false, 0, 0, 1);
          domain.use_explicit = true; domain.explicit_level = cfg.assign_level; domain.explicit_seed = cfg.assign_seed; domain.explicit_mode = cfg.adapt; break;
        }
        domain.set_desired_levels(String(cfg.levels));
        // a legal configuration of the control (round 18): every level of every patch is renumbered after the partitioning;
        // gates, mirrors, muxers and transfers are built on the renumbered meshes (all oracles compare by geometric DOF
        // keys; the one-process reference stays unpermuted)
        static const Geometry::PermutationStrategy ps[8] = {Geometry::PermutationStrategy::none, Geometry::PermutationStrategy::random,
          Geometry::PermutationStrategy::lexicographic, Geometry::PermutationStrategy::colored, Geometry::PermutationStrategy::cuthill_mckee,
          Geometry::PermutationStrategy::cuthill_mckee_reversed, Geometry::PermutationStrategy::geometric_cuthill_mckee,
          Geometry::PermutationStrategy::geometric_cuthill_mckee_reversed};
        if(rc.mesh_perm != 0) domain.set_permutation_strategy(ps[rc.mesh_perm]);
      }
      // the base splitter needs the unpartitioned base-mesh levels on rank 0 (single-layered hierarchies only: FEAT cannot keep base levels otherwise)
      const bool use_splitter = !reference && rc.splitter != 0 && cfg.layers == 1;
      if(use_splitter) domain.keep_base_levels();
      std::deque<String> files; files.push_back(String(cfg.mesh_file));
      domain.create(files, String("/repo/data/meshes"));
      domain.add_trafo_mesh_part_charts();

      RankOut& out = outs[size_t(wrank)];
      out.chosen = domain.format_chosen_levels();
      out.cmax = domain.get_chosen_levels().front().first;
      out.cmin = domain.get_chosen_levels().back().first;

      // ---- exactly what applications/poisson_dirichlet.cpp does
      const Index num_levels = Index(domain.size_physical());
      std::deque<std::shared_ptr<SystemLevelType>> system_levels;
      for(Index i = 0; i < num_levels; ++i) system_levels.push_back(std::make_shared<SystemLevelType>());
      const String cubature("auto-degree:5");
      for(Index i = 0; i < num_levels; ++i)
      {
        domain.at(i)->domain_asm.compile_all_elements();
        system_levels.at(i)->assemble_gate(domain.at(i));
      }
      for(Index i = 0; (i < domain.size_physical()) && ((i + 1) < domain.size_virtual()); ++i)
      {
        system_levels.at(i)->assemble_coarse_muxer(domain.at(i + 1));
        if((i + 1) < domain.size_physical())
          system_levels.at(i)->assemble_transfer(*system_levels.at(i + 1), domain.at(i), domain.at(i + 1), cubature, rc.trunc != 0, rc.shrink != 0);
        else
          system_levels.at(i)->assemble_transfer(domain.at(i), domain.at(i + 1), cubature, rc.trunc != 0, rc.shrink != 0);
      }
      for(Index i = 0; i < num_levels; ++i)
      {
        if constexpr(mass_op_)
        {
          system_levels.at(i)->symbolic_assembly_std1(domain.at(i)->space);
          system_levels.at(i)->matrix_sys.local().format();
          Assembly::Common::IdentityOperator mass_op;
          Assembly::assemble_bilinear_operator_matrix_1(domain.at(i)->domain_asm, system_levels.at(i)->matrix_sys.local(), mass_op, domain.at(i)->space, cubature);
        }
        else
          system_levels.at(i)->assemble_laplace_matrix(domain.at(i)->domain_asm, domain.at(i)->space, cubature);
      }
      for(Index i = 0; i < num_levels; ++i)
        system_levels.at(i)->assemble_homogeneous_unit_filter(*domain.at(i), domain.at(i)->space);

      // ---- synchronisation oracles on every physical level (every layer this rank takes part in)
      for(Index i = 0; i < num_levels; ++i)
      {
        LevelOut lo;
        const auto& vl = domain.at(i);
        lo.layer = vl.layer().get_layer_index(); lo.level = vl->get_level_index();
        lo.layer_rank = vl.layer().comm().rank(); lo.layer_size = vl.layer().comm().size();
        lo.keys = dof_keys(vl->space);
        const auto& gate = system_levels.at(i)->gate_sys;
        const Index nd = Index(lo.keys.size());
        if(gate.get_freqs().size() != nd) sim::fail("GATE_SIZE", "gate frequency vector has a different size than the space");
        LocalVector v0(nd), v0b(nd), v0c(nd), v1(nd);
        for(Index d = 0; d < nd; ++d)
        {
          v0(d, h_int(lo.keys[d], lo.layer_rank));
          v0b(d, h_int(lo.keys[d] + 7777, lo.layer_rank));
          v0c(d, h_int(lo.keys[d] + 999, lo.layer_rank));
          v1(d, g_val(lo.keys[d], 3));     // consistent type-1 input: the same value on every sharing rank
        }
        gate.sync_0(v0);
        {
          // two tickets in flight, waited in seeded order
          auto t1 = gate.sync_0_async(v0b);
          auto t2 = gate.sync_0_async(v0c);
          if(rc.wait_order) { t2.wait(); t1.wait(); } else { t1.wait(); t2.wait(); }
        }
        gate.sync_1(v1);
        for(Index d = 0; d < nd; ++d) { lo.s0_out.push_back(v0(d)); lo.s0b_out.push_back(v0b(d)); lo.s0c_out.push_back(v0c(d)); lo.s1_out.push_back(v1(d)); lo.freqs.push_back(gate.get_freqs()(d)); }
        lo.num_global_dofs = gate.get_num_global_dofs();
        out.levels.push_back(std::move(lo));
      }

      // ---- grid transfer applied directly, level pair by level pair from fine to coarse (the order every rank of a layer
      // follows): consistent (type-1) test vectors given by the DOF keys go down by restriction/truncation and up by
      // prolongation; across a layer boundary the children send/receive through the muxer (rest_send/prol_recv) and the
      // parents join/split. Results are compared with the one-process transfer by DOF key
      for(Index i = 0; (i < domain.size_physical()) && ((i + 1) < domain.size_virtual()); ++i)
      {
        const auto& tr = system_levels.at(i)->transfer_sys;
        LevelOut& lf = out.levels.at(i);
        const Index nf = Index(lf.keys.size());
        GlobalSystemVector vf(&system_levels.at(i)->gate_sys, LocalVector(nf)), vp(&system_levels.at(i)->gate_sys, LocalVector(nf));
        for(Index d = 0; d < nf; ++d) vf.local()(d, g_val(lf.keys[d], 41));
        vp.format();
        if((i + 1) < domain.size_physical())
        {
          LevelOut& lc = out.levels.at(i + 1);
          const Index nc = Index(lc.keys.size());
          GlobalSystemVector vc(&system_levels.at(i + 1)->gate_sys, LocalVector(nc)), vr(&system_levels.at(i + 1)->gate_sys, LocalVector(nc));
          for(Index d = 0; d < nc; ++d) vc.local()(d, g_val(lc.keys[d], 42));
          vr.format();
          tr.rest(vf, vr);
          for(Index d = 0; d < nc; ++d) lc.rest.push_back(vr.local()(d));
          if(rc.trunc)
          {
            vr.format();
            tr.trunc(vf, vr);
            for(Index d = 0; d < nc; ++d) lc.trunc.push_back(vr.local()(d));
          }
          tr.prol(vp, vc);
        }
        else
        {
          tr.rest_send(vf);
          if(rc.trunc) tr.trunc_send(vf);
          tr.prol_recv(vp);
        }
        for(Index d = 0; d < nf; ++d) lf.prol.push_back(vp.local()(d));
      }

      // ---- finest level: global scalars, operator application, solve
      DomainLevelType& the_domain_level = *domain.front();
      SystemLevelType& the_system_level = *system_levels.front();
      out.keys = dof_keys(the_domain_level.space);
      const Index nd = Index(out.keys.size());
      GlobalSystemVector gx = the_system_level.matrix_sys.create_vector_r();
      GlobalSystemVector gy = the_system_level.matrix_sys.create_vector_r();
      GlobalSystemVector gr = the_system_level.matrix_sys.create_vector_l();
      for(Index d = 0; d < nd; ++d) { gx.local()(d, g_val(out.keys[d], 1)); gy.local()(d, g_val(out.keys[d], 2)); }
      out.dot = gx.dot(gy);
      out.norm2 = gx.norm2();
      out.gmax = the_system_level.gate_sys.max(double(wrank + 1) * 1.5);
      out.gmin = the_system_level.gate_sys.min(double(wrank + 1) * 1.5);
      out.gsum = the_system_level.gate_sys.sum(double((wrank + 1) * (wrank + 1)));
      {
        // four scalar tickets in flight at once (dot, norm2 with the sqrt flag, max, min), waited in seeded order; each
        // must deliver what its blocking twin delivered (reduction association may differ: rounding tolerance)
        auto t_dot = gx.dot_async(gy);
        auto t_nrm = gx.norm2_async();
        auto t_max = the_system_level.gate_sys.max_async(double(wrank + 1) * 1.5);
        auto t_min = the_system_level.gate_sys.min_async(double(wrank + 1) * 1.5);
        double a_dot, a_nrm, a_max, a_min;
        if(rc.wait_order) { a_min = t_min.wait(); a_nrm = t_nrm.wait(); a_max = t_max.wait(); a_dot = t_dot.wait(); }
        else { a_dot = t_dot.wait(); a_max = t_max.wait(); a_nrm = t_nrm.wait(); a_min = t_min.wait(); }
        double sabs = 0; for(Index d = 0; d < nd; ++d) sabs += std::abs(gx.local()(d) * gy.local()(d));
        const double tol_dot = 1e-13 * (the_system_level.gate_sys.sum(sabs) + 1.0);
        if(std::abs(a_dot - out.dot) > tol_dot) sim::fail("SCALAR_ASYNC", "dot_async with four scalar tickets in flight delivered " + std::to_string(a_dot) + ", the blocking dot " + std::to_string(out.dot));
        if(std::abs(a_nrm - out.norm2) > 1e-13 * (std::abs(out.norm2) + 1.0)) sim::fail("SCALAR_ASYNC", "norm2_async (sqrt flag) with four scalar tickets in flight delivered " + std::to_string(a_nrm) + ", the blocking norm2 " + std::to_string(out.norm2));
        if(a_max != out.gmax || a_min != out.gmin) sim::fail("SCALAR_ASYNC", "max_async/min_async with four scalar tickets in flight delivered " + std::to_string(a_max) + "/" + std::to_string(a_min) + ", the blocking calls " + std::to_string(out.gmax) + "/" + std::to_string(out.gmin));
      }
      {
        // mean filter (pure Neumann problems, continuous pressure): assembled by the control layer over the gate, applied to
        // consistent test vectors; the filtered vectors must be those of the undecomposed filter. (Through a solve the
        // filter is invisible as long as the data are compatible - it then only removes rounding.)
        auto mf = Control::Asm::asm_mean_filter(the_system_level.gate_sys, the_domain_level.space, cubature);
        LocalVector ms(nd), mr(nd);
        for(Index d = 0; d < nd; ++d) { ms(d, g_val(out.keys[d], 51)); mr(d, g_val(out.keys[d], 52)); }
        mf.filter_sol(ms);
        mf.filter_rhs(mr);
        for(Index d = 0; d < nd; ++d) { out.mf_sol.push_back(ms(d)); out.mf_rhs.push_back(mr(d)); }
      }
      if(rc.moved_ticket)
      {
        // a ticket may be moved while its reduction is in flight (the class has a move constructor and a move assignment
        // that insist on "allreduce already called"): the moved-to ticket must deliver the result
        auto t0 = gx.dot_async(gy);
        auto t1 = std::move(t0);
        Global::SynchScalarTicket<double> t2;
        t2 = gx.norm2_async();
        const double m_nrm = t2.wait();
        const double m_dot = t1.wait();
        double sabs = 0; for(Index d = 0; d < nd; ++d) sabs += std::abs(gx.local()(d) * gy.local()(d));
        const double tol_dot = 1e-13 * (the_system_level.gate_sys.sum(sabs) + 1.0);
        if(!(std::abs(m_dot - out.dot) <= tol_dot)) sim::fail("SCALAR_ASYNC_MOVED", "a dot_async ticket that was moved while in flight delivered " + std::to_string(m_dot) + ", the blocking dot " + std::to_string(out.dot));
        if(!(std::abs(m_nrm - out.norm2) <= 1e-13 * (std::abs(out.norm2) + 1.0))) sim::fail("SCALAR_ASYNC_MOVED", "a norm2_async ticket that was move-assigned while in flight delivered " + std::to_string(m_nrm) + ", the blocking norm2 " + std::to_string(out.norm2));
      }
      the_system_level.matrix_sys.apply(gr, gx);
      for(Index d = 0; d < nd; ++d) out.ax.push_back(gr.local()(d));
      the_system_level.matrix_sys.apply(gr, gx, gy, -0.5);
      for(Index d = 0; d < nd; ++d) out.ax3.push_back(gr.local()(d));
      {
        // the other product variants must agree with the two above: transposed (the operators used here are symmetric)
        // and asynchronous (ticket waited after an independent reduction was started in between)
        GlobalSystemVector gt = the_system_level.matrix_sys.create_vector_r();
        double smax = 0; for(Index d = 0; d < nd; ++d) smax = std::max(smax, std::abs(out.ax[d]));
        double smax3 = 0; for(Index d = 0; d < nd; ++d) smax3 = std::max(smax3, std::abs(out.ax3[d]));
        smax = the_system_level.gate_sys.max(smax); smax3 = the_system_level.gate_sys.max(smax3);
        the_system_level.matrix_sys.apply_transposed(gt, gx);
        for(Index d = 0; d < nd; ++d) if(!(std::abs(gt.local()(d) - out.ax[d]) <= 1e-12 * smax)) sim::fail("MATVEC_VARIANT", "apply_transposed of a symmetric operator differs from apply: " + std::to_string(gt.local()(d)) + " vs " + std::to_string(out.ax[d]));
        the_system_level.matrix_sys.apply_transposed(gt, gx, gy, -0.5);
        for(Index d = 0; d < nd; ++d) if(!(std::abs(gt.local()(d) - out.ax3[d]) <= 1e-12 * smax3)) sim::fail("MATVEC_VARIANT", "apply_transposed(r, x, y, alpha) of a symmetric operator differs from apply(r, x, y, alpha)");
        {
          auto tk = the_system_level.matrix_sys.apply_async(gt, gx);
          auto ts = gx.max_abs_element_async();
          const double ma = ts.wait();
          tk.wait();
          for(Index d = 0; d < nd; ++d) if(!(std::abs(gt.local()(d) - out.ax[d]) <= 1e-12 * smax)) sim::fail("MATVEC_VARIANT", "apply_async differs from apply");
          out.vmax_abs = ma;
        }
        {
          auto tk = the_system_level.matrix_sys.apply_async(gt, gx, gy, -0.5);
          tk.wait();
          for(Index d = 0; d < nd; ++d) if(!(std::abs(gt.local()(d) - out.ax3[d]) <= 1e-12 * smax3)) sim::fail("MATVEC_VARIANT", "apply_async(r, x, y, alpha) differs from apply(r, x, y, alpha)");
        }
        // element reductions of the distributed vector (each DOF value is a function of its key)
        out.vmin_abs = gx.min_abs_element();
        if(gx.max_abs_element() != out.vmax_abs) sim::fail("GLOBAL_SCALAR", "max_abs_element and max_abs_element_async disagree");
        out.vmax = gx.max_element_async().wait();
        out.vmin = gx.min_element_async().wait();
      }
      the_system_level.matrix_sys.extract_diag(gr, true);
      for(Index d = 0; d < nd; ++d) out.diag.push_back(gr.local()(d));
      the_system_level.matrix_sys.lump_rows(gr, true);
      for(Index d = 0; d < nd; ++d) out.lump.push_back(gr.local()(d));

      if(use_splitter)
      {
        // Global::Splitter: join the distributed type-1 vector into one base-mesh vector on the root and split it again
        the_system_level.assemble_base_splitter(domain.front());
        const auto& splitter = the_system_level.base_splitter_sys;
        GlobalSystemVector gj = the_system_level.matrix_sys.create_vector_r();
        for(Index d = 0; d < nd; ++d) gj.local()(d, g_val(out.keys[d], 5));
        LocalVector base = splitter.join(gj);
        // join() takes its argument by const reference: the distributed vector must come back untouched
        for(Index d = 0; d < nd; ++d) if(gj.local()(d) != g_val(out.keys[d], 5)) sim::fail("SPLITTER", "Splitter::join modified its input vector: DOF holds " + std::to_string(gj.local()(d)) + " after the join, " + std::to_string(g_val(out.keys[d], 5)) + " before");
        if(splitter.is_root() && !splitter.is_single())
        {
          out.base_keys = dof_keys(domain.front().level_b().space);
          if(base.size() != Index(out.base_keys.size())) sim::fail("SPLITTER", "joined base-mesh vector has a different size than the base-mesh space");
          for(Index d = 0; d < base.size(); ++d) out.joined.push_back(base(d));
          for(Index d = 0; d < base.size(); ++d) base(d, g_val(out.base_keys[d], 6));
        }
        GlobalSystemVector gs = the_system_level.matrix_sys.create_vector_r();
        gs.format(-777.0);
        splitter.split(gs, base);
        if(!splitter.is_single()) for(Index d = 0; d < nd; ++d) out.split_out.push_back(gs.local()(d));
        sim::probe("base_splitter_exercised");
      }
      {
        // SynchMatrix: four phases of equal-tag messages between the same pairs (correct only because of non-overtaking)
        auto m1 = the_system_level.matrix_sys.convert_to_1();
        const Index* rp = m1.row_ptr(); const Index* ci = m1.col_ind(); const double* mv = m1.val();
        for(Index r = 0; r < m1.rows(); ++r) for(Index k = rp[r]; k < rp[r + 1]; ++k) out.m1.push_back({{out.keys[r], out.keys[ci[k]]}, mv[k]});
      }
      GlobalSystemVector vec_sol = the_system_level.matrix_sys.create_vector_r();
      GlobalSystemVector vec_rhs = the_system_level.matrix_sys.create_vector_r();
      vec_sol.format(); vec_rhs.format();
      Analytic::Common::ExpBubbleFunction<dim> sol_func;
      {
        if constexpr(mass_op_)
        {
          Assembly::Common::ForceFunctional<decltype(sol_func)> force_func(sol_func);
          Assembly::assemble_linear_functional_vector(the_domain_level.domain_asm, vec_rhs.local(), force_func, the_domain_level.space, cubature);
        }
        else
        {
          Assembly::Common::LaplaceFunctional<decltype(sol_func)> force_func(sol_func);
          Assembly::assemble_linear_functional_vector(the_domain_level.domain_asm, vec_rhs.local(), force_func, the_domain_level.space, cubature);
        }
        vec_rhs.sync_0();
      }
      the_system_level.filter_sys.filter_sol(vec_sol);
      the_system_level.filter_sys.filter_rhs(vec_rhs);
      for(Index d = 0; d < nd; ++d) out.rhs.push_back(vec_rhs.local()(d));

      auto multigrid_hierarchy = std::make_shared<Solver::MultiGridHierarchy<typename SystemLevelType::GlobalSystemMatrix,
        typename SystemLevelType::GlobalSystemFilter, typename SystemLevelType::GlobalSystemTransfer>>(domain.size_virtual());
      for(Index i = 0; i < num_levels; ++i)
      {
        const SystemLevelType& lvl = *system_levels.at(i);
        auto jacobi = Solver::new_jacobi_precond(lvl.matrix_sys, lvl.filter_sys, 0.7);
        auto smoother = Solver::new_richardson(lvl.matrix_sys, lvl.filter_sys, 1.0, jacobi);
        smoother->set_min_iter(4);
        smoother->set_max_iter(4);
        if((i + 1) < domain.size_virtual())
          multigrid_hierarchy->push_level(lvl.matrix_sys, lvl.filter_sys, lvl.transfer_sys, smoother, smoother, smoother);
        else
          multigrid_hierarchy->push_level(lvl.matrix_sys, lvl.filter_sys, smoother);
      }
      static const Solver::MultiGridCycle cycles[3] = {Solver::MultiGridCycle::V, Solver::MultiGridCycle::F, Solver::MultiGridCycle::W};
      auto mgv = Solver::new_multigrid(multigrid_hierarchy, cycles[rc.cycle]);
      std::shared_ptr<Solver::IterativeSolver<GlobalSystemVector>> solver;
      switch(rc.solver)
      {
      default:
      case 0: solver = Solver::new_pcg(the_system_level.matrix_sys, the_system_level.filter_sys, mgv); break;
      case 1: solver = Solver::new_richardson(the_system_level.matrix_sys, the_system_level.filter_sys, 1.0, mgv); break;
      case 2: solver = Solver::new_pipepcg(the_system_level.matrix_sys, the_system_level.filter_sys, mgv); break;
      case 3: solver = Solver::new_bicgstab(the_system_level.matrix_sys, the_system_level.filter_sys, mgv); break;
      }
      solver->set_plot_mode(Solver::PlotMode::none);
      solver->set_tol_rel(1E-8);
      solver->set_max_iter(50);
      multigrid_hierarchy->init();
      solver->init();
      auto result = Solver::solve(*solver, vec_sol, vec_rhs, the_system_level.matrix_sys, the_system_level.filter_sys);
      out.status = int(result);
      out.iters = solver->get_num_iter();
      out.def_init = solver->get_def_initial();
      out.def_final = solver->get_def_final();
      auto error_norms = [&](const GlobalSystemVector& v, double& e0, double& e1)
      {
        if constexpr(mass_op_)
        {
          auto errors = Assembly::integrate_error_function<0>(the_domain_level.domain_asm, sol_func, v.local(), the_domain_level.space, cubature);
          errors.synchronize(comm);
          e0 = std::sqrt(double(errors.norm_h0_sqr));
          e1 = e0;
        }
        else
        {
          auto errors = Assembly::integrate_error_function<1>(the_domain_level.domain_asm, sol_func, v.local(), the_domain_level.space, cubature);
          errors.synchronize(comm);
          e0 = std::sqrt(double(errors.norm_h0_sqr));
          e1 = std::sqrt(double(errors.norm_h1_sqr));
        }
      };
      if(reference)
      {
        // noise floor of this solve: the same solver on a right-hand side perturbed by a few ulps per entry. A long or
        // non-converging Krylov iteration amplifies rounding differences (which a decomposition necessarily introduces in
        // every reduction and interface sum) by many orders of magnitude; the comparison tolerances below scale with it.
        // three samples (different sign patterns and sizes of the perturbation); the largest movement counts
        double e0 = 0, e1 = 0;
        error_norms(vec_sol, e0, e1);
        for(int sample = 0; sample < 3; ++sample)
        {
          GlobalSystemVector rhs2 = vec_rhs.clone(LAFEM::CloneMode::Deep);
          GlobalSystemVector sol2 = vec_sol.clone(LAFEM::CloneMode::Deep);
          sol2.format();
          the_system_level.filter_sys.filter_sol(sol2);
          const double eps = (sample == 1 ? 4.4e-16 : 8.9e-16);
          for(Index d = 0; d < nd; ++d)
          {
            const double sgn = (((unsigned long long)(out.keys[d] * 2654435761ll + 4242 + 977 * sample) >> (7 + sample)) & 1ull) ? 1.0 : -1.0;
            rhs2.local()(d, rhs2.local()(d) * (1.0 + sgn * eps));
          }
          Solver::solve(*solver, sol2, rhs2, the_system_level.matrix_sys, the_system_level.filter_sys);
          for(Index d = 0; d < nd; ++d) out.noise_sol = std::max(out.noise_sol, std::abs(sol2.local()(d) - vec_sol.local()(d)));
          out.noise_def = std::max(out.noise_def, std::abs(double(solver->get_def_final()) - out.def_final));
          out.noise_iters = std::max(out.noise_iters, std::labs(long(solver->get_num_iter()) - long(out.iters)));
          double f0 = 0, f1 = 0;
          error_norms(sol2, f0, f1);
          out.noise_h0 = std::max(out.noise_h0, std::abs(e0 - f0)); out.noise_h1 = std::max(out.noise_h1, std::abs(e1 - f1));
        }
      }
      solver->done();
      multigrid_hierarchy->done();
      for(Index d = 0; d < nd; ++d) out.sol.push_back(vec_sol.local()(d));
      {
        error_norms(vec_sol, out.h0, out.h1);
      }
      comm.barrier();
    }

    // -------------------------------------------------------------------------------------------
    static bool close(double a, double b, double rel, double scale) { return std::abs(a - b) <= rel * scale; }

    static void verify(const RunCfg& rc)
    {
      const std::vector<RankOut>& A = SH->a;
      const RankOut& B = SH->b[0];
      // 8: consistency across ranks - identical bits on all ranks of one call
      for(const RankOut& r : A)
      {
        if(r.chosen != A[0].chosen) sim::fail("CHOSEN_LEVELS_DIFFER", "ranks disagree on chosen levels");
        if(r.status != A[0].status || r.iters != A[0].iters) sim::fail("SOLVER_STATUS_DIFFERS", "ranks report different solver status / iteration counts: " + std::to_string(r.iters) + " vs " + std::to_string(A[0].iters));
        if(r.def_init != A[0].def_init || r.def_final != A[0].def_final) sim::fail("DEFECT_DIFFERS_ACROSS_RANKS", "ranks hold different defect norms for the same solve");
        if(r.dot != A[0].dot || r.norm2 != A[0].norm2 || r.gsum != A[0].gsum || r.gmax != A[0].gmax || r.gmin != A[0].gmin) sim::fail("GLOBAL_SCALAR_DIFFERS_ACROSS_RANKS", "a global reduction delivered different bits to different ranks");
        if(r.h0 != A[0].h0 || r.h1 != A[0].h1) sim::fail("GLOBAL_SCALAR_DIFFERS_ACROSS_RANKS", "error norms differ across ranks");
      }
      const int n = int(A.size());
      // 4: global scalars
      {
        double emax = 1.5 * n, emin = 1.5, esum = 0; for(int r = 1; r <= n; ++r) esum += double(r * r);
        if(A[0].gmax != emax || A[0].gmin != emin || A[0].gsum != esum) sim::fail("GLOBAL_SCALAR", "gate max/min/sum wrong: " + std::to_string(A[0].gmax) + " " + std::to_string(A[0].gmin) + " " + std::to_string(A[0].gsum));
      }
      // reference maps by key (world B, one rank)
      std::map<long long, size_t> bidx;
      for(size_t i = 0; i < B.keys.size(); ++i) bidx[B.keys[i]] = i;
      if(bidx.size() != B.keys.size()) sim::fail("INFRA", "duplicate DOF keys in the reference");
      {
        double sabs = 0; for(size_t i = 0; i < B.keys.size(); ++i) sabs += std::abs(g_val(B.keys[i], 1) * g_val(B.keys[i], 2));
        if(!close(A[0].dot, B.dot, 1e-13, sabs + 1)) sim::fail("DOT", "global dot " + std::to_string(A[0].dot) + " differs from the one-process value " + std::to_string(B.dot));
        if(!close(A[0].norm2, B.norm2, 1e-13, std::abs(B.norm2) + 1)) sim::fail("NORM2", "global norm2 differs from the one-process value");
        double emax = -1e300, emin = 1e300, eamax = 0, eamin = 1e300;
        for(size_t i = 0; i < B.keys.size(); ++i) { const double v = g_val(B.keys[i], 1); emax = std::max(emax, v); emin = std::min(emin, v); eamax = std::max(eamax, std::abs(v)); eamin = std::min(eamin, std::abs(v)); }
        for(const RankOut& r : A)
          if(r.vmax != emax || r.vmin != emin || r.vmax_abs != eamax || r.vmin_abs != eamin)
            sim::fail("ELEMENT_REDUCTION", "max/min/max_abs/min_abs element of the distributed vector: " + std::to_string(r.vmax) + " " + std::to_string(r.vmin) + " " + std::to_string(r.vmax_abs) + " " + std::to_string(r.vmin_abs) +
              ", of the undecomposed vector: " + std::to_string(emax) + " " + std::to_string(emin) + " " + std::to_string(eamax) + " " + std::to_string(eamin));
      }
      // 1,2,3 per level
      std::map<std::pair<int, int>, std::vector<const LevelOut*>> groups;
      for(const RankOut& r : A) for(const LevelOut& l : r.levels) groups[{l.layer, l.level}].push_back(&l);
      for(const auto& g : groups)
      {
        ++CNT.levels;
        const std::string where = "layer " + std::to_string(g.first.first) + " level " + std::to_string(g.first.second);
        if(int(g.second.size()) != g.second.front()->layer_size) sim::fail("LAYER_INCOMPLETE", where);
        std::map<long long, std::vector<int>> sharing;   // key -> layer ranks
        for(const LevelOut* l : g.second) for(long long k : l->keys) sharing[k].push_back(l->layer_rank);
        for(const LevelOut* l : g.second)
        {
          if(l->num_global_dofs != Index(sharing.size())) sim::fail("NUM_GLOBAL_DOFS", where + ": get_num_global_dofs() = " + std::to_string(l->num_global_dofs) + ", distinct DOFs = " + std::to_string(sharing.size()));
          for(size_t d = 0; d < l->keys.size(); ++d)
          {
            const std::vector<int>& S = sharing[l->keys[d]];
            double e0 = 0, e0b = 0, e0c = 0;
            for(int q : S) { e0 += h_int(l->keys[d], q); e0b += h_int(l->keys[d] + 7777, q); e0c += h_int(l->keys[d] + 999, q); }
            ++CNT.sync0_dofs;
            if(S.size() > 1) ++CNT.shared_dofs;
            if(S.size() > 2) ++CNT.three_way;
            if(l->s0_out[d] != e0) sim::fail("SYNC0", where + ": sync_0 on layer rank " + std::to_string(l->layer_rank) + " DOF shared by " + std::to_string(S.size()) + " ranks holds " + std::to_string(l->s0_out[d]) + ", exact sum is " + std::to_string(e0));
            if(l->s0b_out[d] != e0b || l->s0c_out[d] != e0c) sim::fail("SYNC0_ASYNC", where + ": sync_0_async with two tickets in flight delivered a wrong sum on layer rank " + std::to_string(l->layer_rank));
            double e1 = g_val(l->keys[d], 3);
            if(!close(l->s1_out[d], e1, 4e-16 * double(S.size() + 1), std::abs(e1) + 1)) sim::fail("SYNC1", where + ": sync_1 changed a consistent value: " + std::to_string(l->s1_out[d]) + " vs " + std::to_string(e1));
            if(!close(l->freqs[d], 1.0 / double(S.size()), 1e-15, 1.0)) sim::fail("GATE_FREQS", where + ": frequency " + std::to_string(l->freqs[d]) + " for a DOF shared by " + std::to_string(S.size()) + " ranks");
          }
        }
      }
      // grid transfer per level against the one-process transfer between the same two refinement levels
      {
        std::map<int, const LevelOut*> bl;
        for(const LevelOut& l : B.levels) bl[l.level] = &l;
        auto cmp = [&](const LevelOut& l, const std::vector<double>& mine, const std::vector<double> LevelOut::* ref, const char* cls, const char* what)
        {
          if(mine.empty()) return;
          auto it = bl.find(l.level);
          if(it == bl.end()) sim::fail("INFRA", "the one-process run lacks a level of the distributed run");
          const LevelOut& b = *it->second;
          const std::vector<double>& rv = b.*ref;
          if(rv.empty()) sim::fail("INFRA", std::string("the one-process run has no ") + what + " on level " + std::to_string(l.level));
          std::map<long long, size_t> bi; for(size_t d = 0; d < b.keys.size(); ++d) bi[b.keys[d]] = d;
          double sc = 1e-300; for(double x : rv) sc = std::max(sc, std::abs(x));
          for(size_t d = 0; d < l.keys.size(); ++d)
          {
            auto f = bi.find(l.keys[d]);
            if(f == bi.end()) sim::fail("DOF_KEY_UNKNOWN", "a DOF of a coarser level is unknown to the one-process run");
            ++CNT.transfer_entries;
            if(!(std::abs(mine[d] - rv[f->second]) <= 1e-11 * sc))
              sim::fail(cls, std::string(what) + " onto layer " + std::to_string(l.layer) + " level " + std::to_string(l.level) + " on layer rank " + std::to_string(l.layer_rank) + " of " + std::to_string(l.layer_size) + ": " + std::to_string(mine[d]) + ", one-process value " + std::to_string(rv[f->second]));
          }
        };
        // `shrink` drops every entry of a *local* transfer matrix below 1e-3 of its largest one. In a distributed run the
        // local matrices hold weighted parts of the rows, so which entries fall under the threshold depends on the
        // partition - a documented trade (sparsity against exactness) of the library, not a defect: the solves, which the
        // property speaks about, converge to the same solution. Equality with the one-process operator is therefore only
        // demanded where shrinking cannot bite: without `shrink`, or - prolongation/restriction only - on nested meshes
        // (no charts), whose transfer entries are exact interpolation weights or rounding-size noise. (Thorough-tier
        // soak, seed 11: truncation on a charted mesh differed by 4e-3 relative with shrink, not at all without.)
        const bool exact_ops = rc.shrink == 0, nested = rc.w.mesh < 6;
        if(!exact_ops) sim::probe("transfer_matrices_shrunk");
        for(const RankOut& r : A) for(const LevelOut& l : r.levels)
        {
          if(exact_ops || nested) cmp(l, l.prol, &LevelOut::prol, "TRANSFER_PROL", "prolongation");
          if(exact_ops || nested) cmp(l, l.rest, &LevelOut::rest, "TRANSFER_REST", "restriction");
          if(exact_ops) cmp(l, l.trunc, &LevelOut::trunc, "TRANSFER_TRUNC", "truncation");
        }
      }
      // 5,7 finest level by key against world B
      auto maxabs = [](const std::vector<double>& v) { double m = 0; for(double x : v) m = std::max(m, std::abs(x)); return m; };
      const double s_ax = maxabs(B.ax) + 1e-300, s_ax3 = maxabs(B.ax3) + 1e-300, s_diag = maxabs(B.diag), s_lump = maxabs(B.lump) + maxabs(B.diag), s_rhs = maxabs(B.rhs) + 1e-300, s_sol = maxabs(B.sol) + 1e-300, s_mfs = maxabs(B.mf_sol) + 1e-300, s_mfr = maxabs(B.mf_rhs) + 1e-300;
      std::set<long long> seen;
      for(const RankOut& r : A)
      {
        for(size_t d = 0; d < r.keys.size(); ++d)
        {
          auto it = bidx.find(r.keys[d]);
          if(it == bidx.end()) sim::fail("DOF_KEY_UNKNOWN", "a DOF of the distributed run does not exist in the one-process run");
          size_t j = it->second;
          seen.insert(r.keys[d]);
          ++CNT.matvec_entries;
          if(!close(r.ax[d], B.ax[j], 1e-12, s_ax)) sim::fail("MATVEC", "A*x differs from the one-process product at a DOF: " + std::to_string(r.ax[d]) + " vs " + std::to_string(B.ax[j]));
          if(!close(r.ax3[d], B.ax3[j], 1e-12, s_ax3)) sim::fail("MATVEC3", "y + alpha*A*x differs from the one-process result");
          if(!close(r.diag[d], B.diag[j], 1e-12, s_diag)) sim::fail("EXTRACT_DIAG", "synchronised main diagonal differs from the one-process diagonal: " + std::to_string(r.diag[d]) + " vs " + std::to_string(B.diag[j]));
          if(!close(r.lump[d], B.lump[j], 1e-12, s_lump)) sim::fail("LUMP_ROWS", "synchronised lumped rows differ from the one-process result");
          if(!close(r.mf_sol[d], B.mf_sol[j], 1e-11, s_mfs)) sim::fail("MEAN_FILTER", "mean filter applied to a primal vector differs from the undecomposed filter: " + std::to_string(r.mf_sol[d]) + " vs " + std::to_string(B.mf_sol[j]));
          if(!close(r.mf_rhs[d], B.mf_rhs[j], 1e-11, s_mfr)) sim::fail("MEAN_FILTER", "mean filter applied to a dual vector differs from the undecomposed filter: " + std::to_string(r.mf_rhs[d]) + " vs " + std::to_string(B.mf_rhs[j]));
          if(!close(r.rhs[d], B.rhs[j], 1e-12, s_rhs)) sim::fail("RHS", "assembled+synchronised right-hand side differs from the one-process vector");
          ++CNT.sol_entries;
          if(!(std::abs(r.sol[d] - B.sol[j]) <= 1e-7 * s_sol + 1e3 * B.noise_sol)) sim::fail("SOLUTION", "discrete solution differs from the one-process solution: " + std::to_string(r.sol[d]) + " vs " + std::to_string(B.sol[j]) + " (noise floor of the solve " + std::to_string(B.noise_sol) + ")");
        }
      }
      {
        std::map<std::pair<long long, long long>, double> bm;
        double smax = 0;
        for(const auto& e : B.m1) { bm[e.first] = e.second; smax = std::max(smax, std::abs(e.second)); }
        for(const RankOut& r : A) for(const auto& e : r.m1)
        {
          auto it = bm.find(e.first);
          if(it == bm.end()) sim::fail("MATRIX_TYPE1", "convert_to_1(): entry of the local pattern does not exist in the one-process matrix");
          ++CNT.matvec_entries;
          if(!close(e.second, it->second, 1e-12, smax)) sim::fail("MATRIX_TYPE1", "convert_to_1(): type-1 matrix entry " + std::to_string(e.second) + " differs from the entry of the undecomposed matrix " + std::to_string(it->second));
        }
      }
      for(const RankOut& r : A)
      {
        for(size_t d = 0; d < r.joined.size(); ++d)
          if(!close(r.joined[d], g_val(r.base_keys[d], 5), 1e-14, std::abs(g_val(r.base_keys[d], 5)) + 1)) sim::fail(rc.mesh_perm != 0 ? "SPLITTER_MESH_PERM" : "SPLITTER", "Splitter::join: base-mesh vector holds " + std::to_string(r.joined[d]) + " at a DOF whose distributed value is " + std::to_string(g_val(r.base_keys[d], 5)));
        for(size_t d = 0; d < r.split_out.size(); ++d)
          if(r.split_out[d] != g_val(r.keys[d], 6)) sim::fail(rc.mesh_perm != 0 ? "SPLITTER_MESH_PERM" : "SPLITTER", "Splitter::split: patch vector holds " + std::to_string(r.split_out[d]) + " where the base-mesh vector holds " + std::to_string(g_val(r.keys[d], 6)));
      }
      if(seen.size() != B.keys.size()) sim::fail("DOF_COVER", "the patches hold " + std::to_string(seen.size()) + " of " + std::to_string(B.keys.size()) + " global DOFs");
      CNT.iters += A[0].iters;
      // the stopping test is a threshold: a run that converges in its last permitted iteration in one world may need one more
      // in the other (success vs max_iter); every other disagreement of the status is a violation
      {
        const long tol_it = 1 + 2 * B.noise_iters;
        const bool boundary = ((A[0].status == int(Solver::Status::success) && B.status == int(Solver::Status::max_iter)) || (A[0].status == int(Solver::Status::max_iter) && B.status == int(Solver::Status::success)))
          && std::labs(long(A[0].iters) - long(B.iters)) <= tol_it;
        if(A[0].status != B.status && !boundary) sim::fail("SOLVER_STATUS", "solver status " + std::to_string(A[0].status) + " (" + std::to_string(A[0].iters) + " iterations) differs from the one-process status " + std::to_string(B.status) + " (" + std::to_string(B.iters) + " iterations)");
        if(A[0].status != B.status) sim::probe("converged_in_the_last_permitted_iteration_in_one_world_only");
      }
      if(!close(A[0].def_init, B.def_init, 1e-10, B.def_init)) sim::fail("DEFECT_INIT", "initial defect differs from the one-process run: " + std::to_string(A[0].def_init) + " vs " + std::to_string(B.def_init));
      long di = long(A[0].iters) - long(B.iters);
      const long di_tol = 1 + 2 * B.noise_iters;
      if(di < -di_tol || di > di_tol) sim::fail("ITERATIONS", "iteration count " + std::to_string(A[0].iters) + " differs from the one-process count " + std::to_string(B.iters));
      if(B.noise_sol > 1e-10 * (1.0 + std::abs(B.h0))) sim::probe("solve_amplifies_rounding_noise");
      if(di == 0 && !(std::abs(A[0].def_final - B.def_final) <= 1e-4 * B.def_final + 1e-13 * B.def_init + 1e3 * B.noise_def)) { char b[200]; snprintf(b, sizeof(b), "final defect differs from the one-process run: %.6e vs %.6e (initial %.6e, %d iterations)", A[0].def_final, B.def_final, B.def_init, int(B.iters)); sim::fail("DEFECT_FINAL", b); }
      if(!(std::abs(A[0].h0 - B.h0) <= 1e-6 * B.h0 + 1e3 * B.noise_h0) || !(std::abs(A[0].h1 - B.h1) <= 1e-6 * B.h1 + 1e3 * B.noise_h1)) sim::fail("ERROR_NORMS", "H0/H1 errors differ from the one-process run");
    }

    static void run(const RunCfg& rc_in)
    {
      RunCfg rc = rc_in;
      rc.trunc = int(sim::cfg_int("transfer_trunc", 0, 1));
      rc.shrink = int(sim::cfg_int("transfer_shrink", 0, 1));
      rc.moved_ticket = int(sim::cfg_int("moved_ticket", 0, 1));
      rc.mesh_perm = int(sim::cfg_weighted("mesh_perm", {9, 1, 1, 1, 1, 1, 1, 1}));
      if(rc.mesh_perm != 0) sim::probe("world_with_mesh_permutation");
      // known finding (KNOWN_FINDINGS.txt, DESIGN.md 13.2): the base splitter pairs the k-th entity of the root's patch part
      // with the k-th local entity of the patch (identity mirror on the child), which no longer holds once the patch mesh has
      // been renumbered. The combination is only run from the pinned trace, never met in the seed sweep.
      if(rc.mesh_perm != 0 && sim::cfg_fixed("splitter_with_mesh_perm_known_finding", 0) != 1) rc.splitter = 0;
      Shared sh;
      SH = &sh;
      sh.a.resize(size_t(rc.w.n));
      sh.b.resize(1);
      simmpi::world_begin(rc.w.n, [rc](int r) { rank_body(r, rc, false, 0, 0, SH->a); });
      sim::run_go();
      simmpi::world_end();
      const int cmax = sh.a[0].cmax, cmin = sh.a[0].cmin;
      // world B: the one-process run with the same level range
      simmpi::world_begin(1, [rc, cmax, cmin](int r) { rank_body(r, rc, true, cmax, cmin, SH->b); });
      sim::run_go();
      simmpi::world_end();
      verify(rc);
      SH = nullptr;
    }
  };
}

