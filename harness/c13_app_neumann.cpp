// C13 (application level): applications/poisson_neumann.cpp (pure Neumann problem, global mean filter) verbatim on
// simulated ranks vs. one rank
#define main feat_app_renamed_main
#include "/repo/applications/poisson_neumann.cpp"
#undef main
#define APP_NS PoissonNeumann
#define APP_NAME "c13_app_neumann"
#include "c13_app_common.hpp"
