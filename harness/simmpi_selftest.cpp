// Self-test of SimMPI's own invariants (DESIGN.md 3.2): the same rank program runs (a) on simulated ranks under
// the seeded scheduler and (b) - compiled with -DREAL_MPI against Open MPI - under mpirun, and must pass in both.
// It checks what every FEAT oracle relies on: reliable delivery, non-overtaking, matching by (source, tag, comm),
// Waitany bookkeeping, collective results, sub-communicators, shared-file-pointer I/O.
#include <mpi.h>
#include <cstdint>
#include <cstdio>
#include <cstdlib>
#include <cstring>
#include <string>
#include <vector>

#ifdef REAL_MPI
#define FAILX(msg) do { fprintf(stderr, "SELFTEST FAILED (rank %d): %s\n", g_rank, std::string(msg).c_str()); MPI_Abort(MPI_COMM_WORLD, 1); } while(0)
static int g_rank = 0;
#else
#include "runner.hpp"
#include "simmpi/simmpi.hpp"
#define FAILX(msg) sim::fail("SIMMPI_SELFTEST", std::string(msg))
#endif

namespace
{
  struct Lcg { uint64_t s; uint32_t next(uint32_t n) { s = s * 6364136223846793005ull + 1442695040888963407ull; return uint32_t((s >> 33) % n); } };

  struct PlanMsg { int src, dst, tag, len; };

  void body(int rank, int n, uint64_t plan_seed, const char* fname)
  {
    Lcg g{plan_seed * 77 + 5};
    const size_t N = size_t(n);
    // ---- phase 1: random point-to-point plan, identical on all ranks
    int nmsg = 4 + int(g.next(40));
    std::vector<PlanMsg> plan;
    for(int i = 0; i < nmsg; ++i)
    {
      PlanMsg m; m.src = int(g.next(uint32_t(n))); m.dst = int(g.next(uint32_t(n))); m.tag = int(g.next(3)); m.len = int(g.next(4) == 0 ? 0 : g.next(300));
      if(n > 1 && m.src == m.dst) m.dst = (m.dst + 1) % n;
      if(n == 1) continue;
      plan.push_back(m);
    }
    bool any_source = g.next(3) == 0;
    // wildcard mode: every message has 8 bytes, so any message may match any receive
    if(any_source) for(auto& m : plan) m.len = 8;
    // receives first (nonblocking), in plan order per destination
    std::vector<MPI_Request> rreq; std::vector<std::vector<unsigned char>> rbuf; std::vector<int> rplan;
    for(size_t i = 0; i < plan.size(); ++i)
      if(plan[i].dst == rank)
      {
        rbuf.emplace_back(size_t(plan[i].len) + 1, 0xEE);
        rplan.push_back(int(i));
      }
    rreq.resize(rbuf.size());
    for(size_t k = 0; k < rbuf.size(); ++k)
      MPI_Irecv(rbuf[k].data(), plan[size_t(rplan[k])].len, MPI_BYTE, any_source ? MPI_ANY_SOURCE : plan[size_t(rplan[k])].src, any_source ? MPI_ANY_TAG : plan[size_t(rplan[k])].tag, MPI_COMM_WORLD, &rreq[k]);
    // sends: content encodes the plan index so that order can be checked
    std::vector<MPI_Request> sreq; std::vector<std::vector<unsigned char>> sbuf;
    for(size_t i = 0; i < plan.size(); ++i)
      if(plan[i].src == rank)
      {
        sbuf.emplace_back(size_t(plan[i].len) + 1);
        for(int b = 0; b < plan[i].len; ++b) sbuf.back()[size_t(b)] = (unsigned char)((i * 131 + size_t(b) * 7) & 0xff);
      }
    sreq.resize(sbuf.size());
    {
      size_t k = 0;
      for(size_t i = 0; i < plan.size(); ++i)
        if(plan[i].src == rank) { MPI_Isend(sbuf[k].data(), plan[i].len, MPI_BYTE, plan[i].dst, plan[i].tag, MPI_COMM_WORLD, &sreq[k]); ++k; }
    }
    {
      std::vector<char> seen(rbuf.size(), 0);
      std::vector<MPI_Status> sts(rbuf.size());
      for(size_t c = 0; c < rbuf.size(); ++c)
      {
        int idx = -1; MPI_Status st;
        MPI_Waitany(int(rreq.size()), rreq.data(), &idx, &st);
        if(idx < 0 || idx >= int(rbuf.size()) || seen[size_t(idx)]) FAILX("Waitany returned a bad or repeated index");
        seen[size_t(idx)] = 1;
        sts[size_t(idx)] = st;
      }
      int uidx = 0; MPI_Status ust;
      MPI_Waitany(int(rreq.size()), rreq.data(), &uidx, &ust);
      if(uidx != MPI_UNDEFINED) FAILX("Waitany on all-null requests must return MPI_UNDEFINED");
      // receives are matched in post order: walking them in post order, the k-th message seen from a source
      // must be the k-th one that source sent to us (wildcards), resp. exactly the planned one (specific receives)
      std::vector<int> got_from(N, 0);
      for(size_t idx = 0; idx < rbuf.size(); ++idx)
      {
        const MPI_Status& st = sts[idx];
        long pi = rplan[idx];
        if(any_source)
        {
          int src = st.MPI_SOURCE;
          if(src < 0 || src >= n) FAILX("bad source in status");
          int kth = got_from[size_t(src)]++, seen_k = 0;
          pi = -1;
          for(size_t i = 0; i < plan.size(); ++i) if(plan[i].src == src && plan[i].dst == rank) { if(seen_k == kth) { pi = long(i); break; } ++seen_k; }
          if(pi < 0) FAILX("more messages from a source than were sent");
        }
        const PlanMsg& exp = plan[size_t(pi)];
        if(st.MPI_SOURCE != exp.src || st.MPI_TAG != exp.tag) FAILX("status source/tag mismatch (matching or non-overtaking broken)");
        int cnt = -1; MPI_Get_count(&st, MPI_BYTE, &cnt);
        if(cnt != exp.len) FAILX("message length mismatch: non-overtaking or matching broken");
        for(int b = 0; b < exp.len; ++b)
          if(rbuf[idx][size_t(b)] != (unsigned char)((size_t(pi) * 131 + size_t(b) * 7) & 0xff)) FAILX("payload mismatch: wrong message matched");
        if(rbuf[idx][size_t(exp.len)] != 0xEE) FAILX("receive buffer overrun");
      }
    }
    if(!sreq.empty()) MPI_Waitall(int(sreq.size()), sreq.data(), MPI_STATUSES_IGNORE);

    // ---- phase 2: collectives
    {
      long v = rank + 1, sum = 0;
      MPI_Allreduce(&v, &sum, 1, MPI_LONG, MPI_SUM, MPI_COMM_WORLD);
      if(sum != long(n) * (n + 1) / 2) FAILX("Allreduce sum wrong");
      double d = 0.1 * (rank + 1), dmax = 0;
      MPI_Allreduce(&d, &dmax, 1, MPI_DOUBLE, MPI_MAX, MPI_COMM_WORLD);
      if(dmax != 0.1 * n) FAILX("Allreduce max wrong");
      int root = int(g.next(uint32_t(n)));
      unsigned long long bc = rank == root ? 0xABCDEF0123ull + plan_seed : 0;
      MPI_Bcast(&bc, 1, MPI_UNSIGNED_LONG_LONG, root, MPI_COMM_WORLD);
      if(bc != 0xABCDEF0123ull + plan_seed) FAILX("Bcast wrong");
      std::vector<int> all(size_t(n), -1); int mine = rank * 3 + 1;
      MPI_Allgather(&mine, 1, MPI_INT, all.data(), 1, MPI_INT, MPI_COMM_WORLD);
      for(int i = 0; i < n; ++i) if(all[size_t(i)] != i * 3 + 1) FAILX("Allgather wrong");
      std::vector<int> gat(size_t(n), -1);
      MPI_Gather(&mine, 1, MPI_INT, gat.data(), 1, MPI_INT, root, MPI_COMM_WORLD);
      if(rank == root) for(int i = 0; i < n; ++i) if(gat[size_t(i)] != i * 3 + 1) FAILX("Gather wrong");
      std::vector<int> sc(N); for(int i = 0; i < n; ++i) sc[size_t(i)] = 100 + i;
      int scr = -1;
      MPI_Scatter(sc.data(), 1, MPI_INT, &scr, 1, MPI_INT, root, MPI_COMM_WORLD);
      if(scr != 100 + rank) FAILX("Scatter wrong");
      long ps = 0; MPI_Scan(&v, &ps, 1, MPI_LONG, MPI_SUM, MPI_COMM_WORLD);
      if(ps != long(rank + 1) * (rank + 2) / 2) FAILX("Scan wrong");
      long es = -7; MPI_Exscan(&v, &es, 1, MPI_LONG, MPI_SUM, MPI_COMM_WORLD);
      if(rank > 0 && es != long(rank) * (rank + 1) / 2) FAILX("Exscan wrong");
      std::vector<int> a2a(N), a2r(size_t(n), -1);
      for(int i = 0; i < n; ++i) a2a[size_t(i)] = rank * 100 + i;
      MPI_Alltoall(a2a.data(), 1, MPI_INT, a2r.data(), 1, MPI_INT, MPI_COMM_WORLD);
      for(int i = 0; i < n; ++i) if(a2r[size_t(i)] != i * 100 + rank) FAILX("Alltoall wrong");
      // allgatherv with rank-dependent counts
      std::vector<int> cnts(N), dis(N); int tot = 0;
      for(int i = 0; i < n; ++i) { cnts[size_t(i)] = i % 3; dis[size_t(i)] = tot; tot += i % 3; }
      std::vector<int> mv(size_t(rank % 3), rank), rv(size_t(tot) + 1, -1);
      MPI_Allgatherv(mv.data(), rank % 3, MPI_INT, rv.data(), cnts.data(), dis.data(), MPI_INT, MPI_COMM_WORLD);
      for(int i = 0; i < n; ++i) for(int k = 0; k < i % 3; ++k) if(rv[size_t(dis[size_t(i)] + k)] != i) FAILX("Allgatherv wrong");
      // two nonblocking reductions in flight, waited in reverse order
      double x1 = rank + 1.0, x2 = 2.0 * (rank + 1), r1 = 0, r2 = 0; MPI_Request q1, q2;
      MPI_Iallreduce(&x1, &r1, 1, MPI_DOUBLE, MPI_SUM, MPI_COMM_WORLD, &q1);
      MPI_Iallreduce(&x2, &r2, 1, MPI_DOUBLE, MPI_SUM, MPI_COMM_WORLD, &q2);
      MPI_Wait(&q2, MPI_STATUS_IGNORE); MPI_Wait(&q1, MPI_STATUS_IGNORE);
      if(r1 != n * (n + 1) / 2.0 || r2 != double(n * (n + 1))) FAILX("Iallreduce wrong");
      MPI_Barrier(MPI_COMM_WORLD);
    }
    // ---- phase 3: sub-communicators
    {
      MPI_Comm half = MPI_COMM_NULL;
      MPI_Comm_split(MPI_COMM_WORLD, rank % 2, -rank, &half);
      int hr = -1, hs = -1; MPI_Comm_rank(half, &hr); MPI_Comm_size(half, &hs);
      int expect_size = (n + (rank % 2 == 0 ? 1 : 0)) / 2;
      if(hs != expect_size) FAILX("Comm_split size wrong");
      long v = rank, s = 0; MPI_Allreduce(&v, &s, 1, MPI_LONG, MPI_SUM, half);
      long es = 0; for(int i = rank % 2; i < n; i += 2) es += i;
      if(s != es) FAILX("Allreduce on split communicator wrong");
      // key = -rank: highest world rank gets comm rank 0
      int top = ((n - 1) % 2 == rank % 2) ? n - 1 : n - 2;
      int who = rank; MPI_Bcast(&who, 1, MPI_INT, 0, half);
      if(who != top) FAILX("Comm_split key ordering wrong");
      MPI_Comm_free(&half);
      // Comm_create with a range group: first ceil(n/2) ranks
      MPI_Group wg, sg; MPI_Comm_group(MPI_COMM_WORLD, &wg);
      int cnt = (n + 1) / 2; int range[1][3] = {{0, cnt - 1, 1}};
      MPI_Group_range_incl(wg, 1, range, &sg);
      MPI_Comm sub = MPI_COMM_NULL; MPI_Comm_create(MPI_COMM_WORLD, sg, &sub);
      if((rank < cnt) != (sub != MPI_COMM_NULL)) FAILX("Comm_create membership wrong");
      if(sub != MPI_COMM_NULL) { int sz; MPI_Comm_size(sub, &sz); if(sz != cnt) FAILX("Comm_create size wrong"); MPI_Comm_free(&sub); }
      MPI_Group_free(&sg); MPI_Group_free(&wg);
    }
    // ---- phase 4: shared-file-pointer I/O, written like DistFileIO::write_combined does
    {
      MPI_File f = MPI_FILE_NULL; MPI_Status st;
      MPI_File_open(MPI_COMM_WORLD, fname, MPI_MODE_WRONLY | MPI_MODE_CREATE, MPI_INFO_NULL, &f);
      if(f == MPI_FILE_NULL) FAILX("File_open(create) failed");
      MPI_File_set_size(f, 0);
      unsigned long long hdr[2] = {0x1122334455667788ull, (unsigned long long)n};
      if(rank == 0) MPI_File_write_shared(f, hdr, 16, MPI_BYTE, &st);
      unsigned long long mylen = (unsigned long long)(rank * 5 % 7);
      MPI_File_write_ordered(f, &mylen, 8, MPI_BYTE, &st);
      std::vector<unsigned char> data(size_t(mylen) + 1, (unsigned char)(rank + 1));
      MPI_File_write_ordered(f, data.data(), int(mylen), MPI_BYTE, &st);
      MPI_File_close(&f);
      MPI_File_open(MPI_COMM_WORLD, fname, MPI_MODE_RDONLY, MPI_INFO_NULL, &f);
      if(f == MPI_FILE_NULL) FAILX("File_open(read) failed");
      unsigned long long h2[2] = {0, 0};
      if(rank == 0) { MPI_File_read_shared(f, h2, 16, MPI_BYTE, &st); if(h2[0] != hdr[0] || h2[1] != hdr[1]) FAILX("file header wrong"); }
      unsigned long long len2 = 99;
      MPI_File_read_ordered(f, &len2, 8, MPI_BYTE, &st);
      if(len2 != mylen) FAILX("ordered read of sizes wrong");
      std::vector<unsigned char> d2(size_t(mylen) + 1, 0);
      MPI_File_read_ordered(f, d2.data(), int(mylen), MPI_BYTE, &st);
      for(size_t i = 0; i < size_t(mylen); ++i) if(d2[i] != (unsigned char)(rank + 1)) FAILX("ordered read of data wrong");
      MPI_File_close(&f);
    }
  }
}

#ifdef REAL_MPI
int main(int argc, char** argv)
{
  MPI_Init(&argc, &argv);
  int n = 1; MPI_Comm_rank(MPI_COMM_WORLD, &g_rank); MPI_Comm_size(MPI_COMM_WORLD, &n);
  uint64_t from = argc > 1 ? strtoull(argv[1], nullptr, 10) : 0, cnt = argc > 2 ? strtoull(argv[2], nullptr, 10) : 20;
  for(uint64_t s = from; s < from + cnt; ++s) { body(g_rank, n, s, "/tmp/simmpi_selftest_real.bin"); MPI_Barrier(MPI_COMM_WORLD); }
  if(g_rank == 0) printf("REAL MPI SELFTEST PASSED n=%d plans=%llu..%llu\n", n, (unsigned long long)from, (unsigned long long)(from + cnt - 1));
  MPI_Finalize();
  return 0;
}
#else
HarnessInfo harness_info() { return {"SIMMPI", "simmpi_selftest", 3000000}; }
void harness_process_init(int, char**) {}
std::string harness_run()
{
  sim::pthread_model_reset();
  sim::clock_reset();
  int n = int(sim::cfg_int("ranks", 1, 9));
  uint64_t plan = uint64_t(sim::cfg_int("plan", 0, 1 << 30));
  simmpi::fs_clear();
  simmpi::world_begin(n, [n, plan](int r) { body(r, n, plan, "selftest.bin"); });
  sim::run_go();
  simmpi::world_end();
  return "";
}
int main(int argc, char** argv) { return harness_main(argc, argv); }
#endif
