// Common worker main() for all harness binaries: runs many simulated runs in-process, one JSON line per run.
//   <bin> --seed S --from I --count N [--trace-dir D] [--keep-traces]
//   <bin> --replay FILE [--trace-out FILE]
// A violation ends the worker (exit 3) after the result line and the trace file have been written.
#pragma once
#include "sim/sim.hpp"
#include <cstdio>
#include <cstdlib>
#include <cstring>
#include <string>
#include <unistd.h>
#include <sched.h>

struct HarnessInfo
{
  const char* property;
  const char* name;
  uint64_t max_steps;
};

// provided by each harness
HarnessInfo harness_info();
void harness_process_init(int argc, char** argv);
// one simulated run: called on the controller thread between run_begin and run_end; draws its configuration
// with sim::cfg_*, spawns tasks, calls sim::run_go() and evaluates the oracles over the recorded history
// (sim::fail on violation). May return a JSON object string with extra per-run information ("" = none).
std::string harness_run();

inline int harness_main(int argc, char** argv)
{
  uint64_t seed = 1, from = 0, count = 1;
  std::string replay, trace_dir, trace_out;
  bool keep = false;
  long cpu = -1;
  for(int i = 1; i < argc; ++i)
  {
    std::string a = argv[i];
    auto nxt = [&]() -> const char* { return i + 1 < argc ? argv[++i] : ""; };
    if(a == "--seed") seed = strtoull(nxt(), nullptr, 10);
    else if(a == "--from") from = strtoull(nxt(), nullptr, 10);
    else if(a == "--count") count = strtoull(nxt(), nullptr, 10);
    else if(a == "--replay") replay = nxt();
    else if(a == "--trace-dir") trace_dir = nxt();
    else if(a == "--trace-out") trace_out = nxt();
    else if(a == "--keep-traces") keep = true;
    else if(a == "--cpu") cpu = atol(nxt());
  }
  {
    // all tasks of a simulation run one at a time: pinning the whole process to one core turns every baton
    // hand-over into a same-core context switch (20x faster than cross-core futex wake-ups)
    long ncpu = sysconf(_SC_NPROCESSORS_ONLN);
    if(ncpu < 1) ncpu = 1;
    if(cpu < 0) cpu = long(getpid()) % ncpu;
    cpu_set_t set; CPU_ZERO(&set); CPU_SET(int(cpu % ncpu), &set);
    sched_setaffinity(0, sizeof(set), &set);
  }
  harness_process_init(argc, argv);
  HarnessInfo hi = harness_info();
#ifdef SIM_FLAVOUR_GUARD
  const std::string hname = std::string(hi.name) + ".guard";   // guard-zone allocator flavour (no sanitizers)
#elif defined(SIM_FLAVOUR_RACE)
  const std::string hname = std::string(hi.name) + ".race";    // happens-before race detector flavour (sim/race_rt.cpp)
#else
  const std::string hname = hi.name;
#endif
  if(!replay.empty()) { from = 0; count = 1; }
  for(uint64_t r = from; r < from + count; ++r)
  {
    sim::Options o;
    o.property = hi.property;
    o.harness = hname;
    o.max_steps = hi.max_steps;
    o.seed = seed;
    o.run = r;
    o.keep_trace = keep;
    if(!replay.empty())
    {
      std::string err;
      if(!sim::load_replay(replay, o, &err)) { fprintf(stderr, "replay load failed: %s\n", err.c_str()); return 2; }
      o.trace_out = trace_out;
      // a larger budget on request (budget hits are re-run with 10x before being reported)
      if(const char* mul = getenv("SIM_BUDGET_MUL")) o.max_steps *= strtoull(mul, nullptr, 10);
    }
    else if(!trace_out.empty()) o.trace_out = trace_out;
    else if(!trace_dir.empty()) o.trace_out = trace_dir + "/" + hname + "-" + std::to_string(o.seed) + "-" + std::to_string(r) + ".json";
    sim::run_begin(o);
    std::string extra = harness_run();
    sim::Stats st = sim::run_end();
    std::string line = "{\"run\":" + std::to_string(o.run) + ",\"seed\":" + std::to_string(o.seed) + ",\"result\":" + sim::stats_json(st);
    if(!extra.empty()) line += ",\"extra\":" + extra;
    line += "}\n";
    fputs(line.c_str(), stdout);
    fflush(stdout);
  }
  return 0;
}
