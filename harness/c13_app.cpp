// C13 (application level): applications/poisson_dirichlet.cpp verbatim on simulated ranks vs. one rank
#define main feat_app_renamed_main
#include "/repo/applications/poisson_dirichlet.cpp"
#undef main
#define APP_NS PoissonDirichlet
#define APP_NAME "c13_app"
#include "c13_app_common.hpp"
