// C05 / W1: containers written with each supported file mode into a SimFS file through SimStreamBuf (seeded
// write chunking), destroyed, and read back from a new stream with an independent chunk schedule (read -
// seek-back - read of Container::_deserialize crossing chunk borders), plus serialize<DT2,IT2>/deserialize
// with type conversion and several objects back-to-back in one file. Oracle: reference copy taken before
// destruction; binary modes bit-identical (values, index arrays, dimensions), text modes identical dimensions
// and pattern, values to the printed precision (DESIGN.md 5.1). No storage faults: C05 speaks about data
// that was written.
#include "runner.hpp"
#include "simfs/simstream.hpp"

#include <kernel/runtime.hpp>
#include <kernel/util/pack.hpp>
#include <kernel/util/binary_stream.hpp>
#include <kernel/lafem/dense_vector.hpp>
#include <kernel/lafem/dense_vector_blocked.hpp>
#include <kernel/lafem/sparse_vector.hpp>
#include <kernel/lafem/sparse_vector_blocked.hpp>
#include <kernel/lafem/dense_matrix.hpp>
#include <kernel/lafem/sparse_matrix_csr.hpp>
#include <kernel/lafem/sparse_matrix_bcsr.hpp>
#include <kernel/lafem/sparse_matrix_banded.hpp>
#include <kernel/lafem/sparse_matrix_cscr.hpp>
#include <kernel/adjacency/graph.hpp>

#include <iostream>

using namespace FEAT;
using namespace FEAT::LAFEM;
using simfs::Bytes;

namespace
{
  struct Counters { uint64_t roundtrips = 0, binary = 0, text = 0, converted = 0, multi = 0, seeks_across = 0, empty_rows = 0, zero_size = 0, bytes = 0; } CNT;

  struct Gen
  {
    uint64_t s;
    explicit Gen(uint64_t seed) : s(seed * 0x9E3779B97F4A7C15ull + 77) {}
    uint64_t next() { s ^= s << 13; s ^= s >> 7; s ^= s << 17; return s; }
    Index idx(Index n) { return n == 0 ? 0 : Index(next() % n); }
    // values: dyadic rationals k/8, |k| < 2^20: exact in float and double, survive every type conversion; with a
    // per-run probability a stored value is an explicit zero (rows zeroed by a filter, partly filled layouts) - a
    // stored zero belongs to the pattern and has to come back as a stored entry
    unsigned zero_per_16 = 0;
    double val()
    {
      if(zero_per_16 != 0 && unsigned(next() % 16ull) < zero_per_16) return 0.0;
      long k = long(next() % 2000000ull) - 1000000; if(k == 0) k = 3; return double(k) / 8.0;
    }
  };

  // reference copy of a container: everything Container stores
  struct Snapshot
  {
    std::vector<std::vector<double>> elems;
    std::vector<std::vector<unsigned long long>> inds;
    std::vector<unsigned long long> scalars;
    std::vector<double> scalars_dt;
  };

  template<typename C_>
  Snapshot snap(const C_& c)
  {
    Snapshot s;
    for(size_t a = 0; a < c.get_elements().size(); ++a)
    {
      std::vector<double> v(c.get_elements_size().at(a));
      for(size_t i = 0; i < v.size(); ++i) v[i] = double(c.get_elements().at(a)[i]);
      s.elems.push_back(v);
    }
    for(size_t a = 0; a < c.get_indices().size(); ++a)
    {
      std::vector<unsigned long long> v(c.get_indices_size().at(a));
      for(size_t i = 0; i < v.size(); ++i) v[i] = (unsigned long long)c.get_indices().at(a)[i];
      s.inds.push_back(v);
    }
    for(auto x : c.get_scalar_index()) s.scalars.push_back((unsigned long long)x);
    for(auto x : c.get_scalar_dt()) s.scalars_dt.push_back(double(x));
    return s;
  }

  template<typename DT_, typename IT_>
  Snapshot snap(const SparseVector<DT_, IT_>& cv)
  {
    // content of a sparse vector = size, number of non-zeros, sorted (index, value) pairs; allocation capacity,
    // growth increment and the lazily-sorted flag are not part of what is persisted
    SparseVector<DT_, IT_>& c = const_cast<SparseVector<DT_, IT_>&>(cv);
    Snapshot s;
    const Index used = c.used_elements();   // sorts lazily
    std::vector<double> v(used); std::vector<unsigned long long> ix(used);
    for(Index i = 0; i < used; ++i) { v[i] = double(c.elements()[i]); ix[i] = (unsigned long long)c.indices()[i]; }
    s.elems.push_back(v); s.inds.push_back(ix);
    s.scalars.push_back((unsigned long long)c.size()); s.scalars.push_back((unsigned long long)used);
    return s;
  }

  template<typename DT_, typename IT_>
  Snapshot snap(const SparseVectorBlocked<DT_, IT_, 2>& cv)
  {
    SparseVectorBlocked<DT_, IT_, 2>& c = const_cast<SparseVectorBlocked<DT_, IT_, 2>&>(cv);
    Snapshot s;
    const Index used = c.used_elements();   // sorts lazily
    std::vector<double> v(2 * used); std::vector<unsigned long long> ix(used);
    for(Index i = 0; i < used; ++i) { ix[i] = (unsigned long long)c.indices()[i]; for(int k = 0; k < 2; ++k) v[2 * i + Index(k)] = double(c.template elements<Perspective::pod>()[2 * i + Index(k)]); }
    s.elems.push_back(v); s.inds.push_back(ix);
    s.scalars.push_back((unsigned long long)c.size()); s.scalars.push_back((unsigned long long)used);
    return s;
  }

  // canonical content for text modes: a container without data may or may not own (empty) arrays - that is
  // representation, not content
  template<typename C_> Snapshot snap_canon(const C_& c) { return snap(c); }

  template<typename DT_, typename IT_>
  Snapshot snap_canon(const DenseVector<DT_, IT_>& c)
  {
    Snapshot s; std::vector<double> v(c.size());
    for(Index i = 0; i < c.size(); ++i) v[i] = double(c.elements()[i]);
    s.elems.push_back(v); s.scalars.push_back((unsigned long long)c.size());
    return s;
  }
  template<typename DT_, typename IT_>
  Snapshot snap_canon(const DenseVectorBlocked<DT_, IT_, 3>& c)
  {
    Snapshot s; const Index n = c.template size<Perspective::pod>(); std::vector<double> v(n);
    for(Index i = 0; i < n; ++i) v[i] = double(c.template elements<Perspective::pod>()[i]);
    s.elems.push_back(v); s.scalars.push_back((unsigned long long)c.size());
    return s;
  }
  template<typename DT_, typename IT_>
  Snapshot snap_canon(const SparseMatrixCSR<DT_, IT_>& c)
  {
    Snapshot s;
    s.scalars = {(unsigned long long)c.rows(), (unsigned long long)c.columns(), (unsigned long long)c.used_elements()};
    std::vector<unsigned long long> rp(c.rows() + 1, 0), ci(c.used_elements()); std::vector<double> v(c.used_elements());
    if(c.used_elements() > 0)
    {
      for(Index i = 0; i <= c.rows(); ++i) rp[i] = (unsigned long long)c.row_ptr()[i];
      for(Index i = 0; i < c.used_elements(); ++i) { ci[i] = (unsigned long long)c.col_ind()[i]; v[i] = double(c.val()[i]); }
    }
    s.inds.push_back(ci); s.inds.push_back(rp); s.elems.push_back(v);
    return s;
  }

  void compare(const Snapshot& a, const Snapshot& b, bool text, const std::string& what)
  {
    if(a.scalars != b.scalars)
    {
      std::string sa, sb; for(auto x : a.scalars) sa += std::to_string(x) + " "; for(auto x : b.scalars) sb += std::to_string(x) + " ";
      sim::fail("DIMENSIONS", what + ": dimensions/layout scalars differ after read-back: wrote [" + sa + "] read [" + sb + "]");
    }
    if(a.inds.size() != b.inds.size()) sim::fail("LAYOUT", what + ": number of index arrays differs");
    for(size_t k = 0; k < a.inds.size(); ++k)
    {
      if(a.inds[k].size() != b.inds[k].size()) sim::fail("LAYOUT", what + ": index array " + std::to_string(k) + " has length " + std::to_string(b.inds[k].size()) + " after read-back, written " + std::to_string(a.inds[k].size()));
      for(size_t i = 0; i < a.inds[k].size(); ++i)
        if(a.inds[k][i] != b.inds[k][i]) sim::fail("LAYOUT", what + ": index array " + std::to_string(k) + " entry " + std::to_string(i) + ": wrote " + std::to_string(a.inds[k][i]) + " read " + std::to_string(b.inds[k][i]));
    }
    if(a.elems.size() != b.elems.size()) sim::fail("LAYOUT", what + ": number of value arrays differs");
    for(size_t k = 0; k < a.elems.size(); ++k)
    {
      if(a.elems[k].size() != b.elems[k].size()) sim::fail("LAYOUT", what + ": value array " + std::to_string(k) + " has length " + std::to_string(b.elems[k].size()) + " after read-back, written " + std::to_string(a.elems[k].size()));
      for(size_t i = 0; i < a.elems[k].size(); ++i)
      {
        const double x = a.elems[k][i], y = b.elems[k][i];
        const bool ok = text ? (std::abs(x - y) <= 1e-6 * std::abs(x)) : (x == y);
        if(!ok) { char buf[160]; snprintf(buf, sizeof(buf), ": value array %zu entry %zu: wrote %.17g read %.17g", k, i, x, y); sim::fail(text ? "VALUES_TEXT" : "VALUES_BINARY", what + buf); }
      }
    }
    if(a.scalars_dt.size() != b.scalars_dt.size()) sim::fail("LAYOUT", what + ": scalar value count differs");
  }

  // ---------------------------------------------------------------------------------------------------
  // generators per container kind
  template<typename DT_, typename IT_>
  Adjacency::Graph make_graph(Gen& g, Index rows, Index cols, int density_pm, bool& has_empty_row)
  {
    std::vector<Index> ptr(rows + 1, 0), idx;
    for(Index r = 0; r < rows; ++r)
    {
      ptr[r] = Index(idx.size());
      bool any = false;
      if(g.idx(1000) >= 150)   // 15 % of the rows are empty
        for(Index c = 0; c < cols; ++c) if(int(g.idx(1000)) < density_pm) { idx.push_back(c); any = true; }
      if(!any) has_empty_row = true;
    }
    ptr[rows] = Index(idx.size());
    Adjacency::Graph gr(rows, cols, Index(idx.size()));
    for(Index r = 0; r <= rows; ++r) gr.get_domain_ptr()[r] = ptr[r];
    for(size_t i = 0; i < idx.size(); ++i) gr.get_image_idx()[i] = idx[i];
    return gr;
  }

  struct Shape { Index n, rows, cols; int density; };

  template<typename DT_, typename IT_> DenseVector<DT_, IT_> make_dv(Gen& g, const Shape& s)
  { DenseVector<DT_, IT_> v(s.n); for(Index i = 0; i < s.n; ++i) v(i, DT_(g.val())); return v; }

  template<typename DT_, typename IT_> DenseVectorBlocked<DT_, IT_, 3> make_dvb(Gen& g, const Shape& s)
  { DenseVectorBlocked<DT_, IT_, 3> v(s.n); auto* p = v.template elements<Perspective::pod>(); for(Index i = 0; i < 3 * s.n; ++i) p[i] = DT_(g.val()); return v; }

  template<typename DT_, typename IT_> SparseVector<DT_, IT_> make_sv(Gen& g, const Shape& s)
  { SparseVector<DT_, IT_> v(s.n); for(Index i = 0; i < s.n; ++i) if(int(g.idx(1000)) < s.density) v(i, DT_(g.val())); return v; }

  template<typename DT_, typename IT_> SparseVectorBlocked<DT_, IT_, 2> make_svb(Gen& g, const Shape& s)
  {
    SparseVectorBlocked<DT_, IT_, 2> v(s.n);
    for(Index i = 0; i < s.n; ++i) if(int(g.idx(1000)) < s.density) { Tiny::Vector<DT_, 2> t; t[0] = DT_(g.val()); t[1] = DT_(g.val()); v(i, t); }
    return v;
  }

  template<typename DT_, typename IT_> DenseMatrix<DT_, IT_> make_dm(Gen& g, const Shape& s)
  { DenseMatrix<DT_, IT_> m(std::max<Index>(s.rows, 1), std::max<Index>(s.cols, 1)); for(Index i = 0; i < m.rows(); ++i) for(Index j = 0; j < m.columns(); ++j) m(i, j, DT_(g.val())); return m; }

  template<typename DT_, typename IT_> SparseMatrixCSR<DT_, IT_> make_csr(Gen& g, const Shape& s)
  {
    bool er = false;
    Adjacency::Graph gr = make_graph<DT_, IT_>(g, std::max<Index>(s.rows, 1), std::max<Index>(s.cols, 1), s.density, er);
    if(er) ++CNT.empty_rows;
    if(g.idx(3) == 0)
    {
      // the other public way to an empty layout: (rows, columns, number of entries) and filling the arrays by hand, as
      // SparseMatrixFactory::make_csr does - also with zero entries
      const Index nnz = gr.get_num_indices();
      SparseMatrixCSR<DT_, IT_> m(gr.get_num_nodes_domain(), gr.get_num_nodes_image(), nnz);
      for(Index r = 0; r <= gr.get_num_nodes_domain(); ++r) m.row_ptr()[r] = IT_(gr.get_domain_ptr()[r]);
      for(Index i = 0; i < nnz; ++i) { m.col_ind()[i] = IT_(gr.get_image_idx()[i]); m.val()[i] = DT_(g.val()); }
      return m;
    }
    SparseMatrixCSR<DT_, IT_> m(gr);
    if(m.used_elements() > 0) for(Index i = 0; i < m.used_elements(); ++i) m.val()[i] = DT_(g.val());
    return m;
  }

  template<typename DT_, typename IT_> SparseMatrixBCSR<DT_, IT_, 2, 3> make_bcsr(Gen& g, const Shape& s)
  {
    bool er = false;
    Adjacency::Graph gr = make_graph<DT_, IT_>(g, std::max<Index>(s.rows, 1), std::max<Index>(s.cols, 1), s.density, er);
    if(er) ++CNT.empty_rows;
    SparseMatrixBCSR<DT_, IT_, 2, 3> m(gr);
    if(m.used_elements() > 0)
    {
      auto* p = m.template val<Perspective::pod>();
      for(Index i = 0; i < m.template used_elements<Perspective::pod>(); ++i) p[i] = DT_(g.val());
    }
    return m;
  }

  template<typename DT_, typename IT_> SparseMatrixBanded<DT_, IT_> make_banded(Gen& g, const Shape& s)
  {
    const Index rows = std::max<Index>(s.rows, 1), cols = std::max<Index>(s.cols, 1);
    std::vector<IT_> offs;
    for(Index o = 0; o < rows + cols - 1; ++o) if(int(g.idx(1000)) < std::max(s.density, 200)) offs.push_back(IT_(o));
    if(offs.empty()) offs.push_back(IT_(rows - 1));
    DenseVector<IT_, IT_> voff(Index(offs.size()));
    for(Index i = 0; i < voff.size(); ++i) voff(i, offs[i]);
    DenseVector<DT_, IT_> vval(Index(offs.size()) * rows);
    for(Index i = 0; i < vval.size(); ++i) vval(i, DT_(g.val()));
    return SparseMatrixBanded<DT_, IT_>(rows, cols, vval, voff);
  }

  template<typename DT_, typename IT_> SparseMatrixCSCR<DT_, IT_> make_cscr(Gen& g, const Shape& s)
  {
    const Index rows = std::max<Index>(s.rows, 1), cols = std::max<Index>(s.cols, 1);
    std::vector<IT_> rownum, rptr, cind;
    for(Index r = 0; r < rows; ++r)
    {
      if(int(g.idx(1000)) >= 600) continue;   // row not stored at all
      rownum.push_back(IT_(r));
      rptr.push_back(IT_(cind.size()));
      for(Index c = 0; c < cols; ++c) if(int(g.idx(1000)) < s.density) cind.push_back(IT_(c));
    }
    if(cind.empty())
    {
      // the CSCR constructor demands at least one stored entry
      rownum.assign(1, IT_(g.idx(rows))); rptr.assign(1, IT_(0)); cind.assign(1, IT_(g.idx(cols)));
    }
    rptr.push_back(IT_(cind.size()));
    DenseVector<IT_, IT_> vci(Index(cind.size())), vrp(Index(rptr.size())), vrn(Index(rownum.size()));
    for(Index i = 0; i < vci.size(); ++i) vci(i, cind[i]);
    for(Index i = 0; i < vrp.size(); ++i) vrp(i, rptr[i]);
    for(Index i = 0; i < vrn.size(); ++i) vrn(i, rownum[i]);
    DenseVector<DT_, IT_> vv(Index(cind.size()));
    for(Index i = 0; i < vv.size(); ++i) vv(i, DT_(g.val()));
    return SparseMatrixCSCR<DT_, IT_>(rows, cols, vci, vv, vrp, vrn);
  }

  // ---------------------------------------------------------------------------------------------------
  struct ModeSpec { FileMode mode; bool text; const char* name; };

  template<typename C_>
  void stream_roundtrip(const C_& orig, const Snapshot& ref, const ModeSpec& ms, const std::string& what, size_t wchunk, size_t rchunk, bool vary, C_* prefilled = nullptr)
  {
    Bytes file;
    {
      simfs::SimStreamBuf sb(file, wchunk, vary);
      std::ostream os(&sb);
      orig.write_out(ms.mode, os);
      os.flush();
      if(!os.good()) sim::fail("WRITE_FAILED", what + ": stream not good after write_out(" + ms.name + ")");
    }
    CNT.bytes += file.size();
    C_ back;
    if(prefilled != nullptr) back = std::move(*prefilled);   // read into an object that already holds other data
    {
      simfs::SimStreamBuf sb(file, rchunk, vary);
      std::istream is(&sb);
      back.read_from(ms.mode, is);
      CNT.seeks_across += sb.seeks_across_chunk;
    }
    if(ms.text) compare(snap_canon(orig), snap_canon(back), true, what + " mode " + ms.name);
    else compare(ref, snap(back), false, what + " mode " + ms.name);
    ++CNT.roundtrips;
    if(ms.text) ++CNT.text; else ++CNT.binary;
  }

  // serialize<DT2,IT2> -> deserialize<DT2,IT2> (type-converting, in memory) and through a stream
  template<typename DT2_, typename IT2_, typename C_>
  void serial_roundtrip(const C_& orig, const Snapshot& ref, const std::string& what, C_* prefilled = nullptr)
  {
    std::vector<char> buf = orig.template serialize<DT2_, IT2_>(LAFEM::SerialConfig(false, false));
    C_ back;
    if(prefilled != nullptr) back = std::move(*prefilled);
    back.template deserialize<DT2_, IT2_>(buf);
    compare(ref, snap(back), false, what + " serialize<" + Type::Traits<DT2_>::name() + "," + Type::Traits<IT2_>::name() + ">");
    ++CNT.converted; ++CNT.roundtrips;
  }

  template<typename C_>
  void all_serial(const C_& orig, const Snapshot& ref, const std::string& what, int which, C_* prefilled = nullptr)
  {
    switch(which)
    {
    case 0: serial_roundtrip<typename C_::DataType, typename C_::IndexType>(orig, ref, what, prefilled); break;
    case 1: serial_roundtrip<float, std::uint64_t>(orig, ref, what, prefilled); break;
    case 2: serial_roundtrip<double, std::uint32_t>(orig, ref, what, prefilled); break;
    case 3: serial_roundtrip<float, std::uint32_t>(orig, ref, what, prefilled); break;
    case 4: serial_roundtrip<double, std::uint64_t>(orig, ref, what, prefilled); break;
    }
  }

  // several objects of one kind back-to-back in one file, read back in order
  template<typename C_>
  void multi_roundtrip(const std::vector<C_>& objs, const ModeSpec& ms, const std::string& what, size_t wchunk, size_t rchunk, bool vary)
  {
    Bytes file;
    std::vector<Snapshot> refs;
    {
      simfs::SimStreamBuf sb(file, wchunk, vary);
      std::ostream os(&sb);
      for(const C_& o : objs) { refs.push_back(snap(o)); o.write_out(ms.mode, os); }
      os.flush();
    }
    simfs::SimStreamBuf sb(file, rchunk, vary);
    std::istream is(&sb);
    for(size_t k = 0; k < objs.size(); ++k)
    {
      C_ back;
      back.read_from(ms.mode, is);
      compare(refs[k], snap(back), ms.text, what + " object " + std::to_string(k) + " of " + std::to_string(objs.size()) + " in one file, mode " + ms.name);
    }
    CNT.seeks_across += sb.seeks_across_chunk;
    ++CNT.multi;
  }

  template<typename C_, typename Make_>
  void exercise(const char* kind, Make_ make, const std::vector<ModeSpec>& modes, Gen& g, const Shape& sh)
  {
    const std::string what = std::string(kind) + "<" + Type::Traits<typename C_::DataType>::name() + "," + Type::Traits<typename C_::IndexType>::name() + ">";
    size_t wchunk = simfs::draw_chunk("chunk_w"), rchunk = simfs::draw_chunk("chunk_r");
    const bool vary = sim::cfg_int("vary_chunks", 0, 2) != 0;
    int mi = int(sim::cfg_int("mode", 0, 7)) % int(modes.size());
    int ser = int(sim::cfg_int("serial_types", 0, 4));
    int nmulti = int(sim::cfg_weighted("multi", {3, 1, 1}));
    {
      C_ c = make(g, sh);
      Snapshot ref = snap(c);
      // a third of the runs read into objects that already hold a container of another shape
      const bool prefill = g.idx(3) == 0;
      Shape s2 = sh; s2.n = g.idx(sh.n + 5); s2.rows = 1 + g.idx(sh.rows + 3); s2.cols = 1 + g.idx(sh.cols + 3);
      C_ pre1, pre2;
      if(prefill) { pre1 = make(g, s2); pre2 = make(g, s2); sim::probe("read_into_non_empty_object"); }
      stream_roundtrip(c, ref, modes[size_t(mi)], what, wchunk, rchunk, vary, prefill ? &pre1 : nullptr);
      all_serial(c, ref, what, ser, prefill ? &pre2 : nullptr);
    }
    if(nmulti > 0 && !modes[size_t(mi)].text)
    {
      std::vector<C_> objs;
      for(int k = 0; k <= nmulti; ++k) { Shape s2 = sh; s2.n = g.idx(sh.n + 3); s2.rows = 1 + g.idx(sh.rows + 2); s2.cols = 1 + g.idx(sh.cols + 2); objs.push_back(make(g, s2)); }
      multi_roundtrip(objs, modes[size_t(mi)], what, wchunk, rchunk, vary);
    }
  }

  // sparse vectors with a history: filled through the element setter with more insertions than the growth increment
  // (re-allocations; the same index written several times), and written - stream and serialize() - before anything has read
  // the vector, i.e. while its lazy sort is still pending. The written images are compared with the content the vector shows
  // afterwards (so a defect of the setter itself, which is not a persistence matter, cannot raise an alarm here).
  template<typename V_, typename Put_>
  void sparse_history(Gen& g, const char* what, FileMode fmode, Put_ put)
  {
    const bool large = g.idx(40) == 0;
    const Index n = large ? Index(1100 + g.idx(1500)) : Index(3 + g.idx(30));
    const Index nins = large ? Index(1001 + g.idx(1200)) : Index(1 + g.idx(3 * n));
    V_ v(n);
    for(Index k = 0; k < nins; ++k) put(v, large ? Index(g.idx(n)) : Index(g.idx(n)), g);
    Bytes file;
    {
      simfs::SimStreamBuf sb(file, 64, true);
      std::ostream os(&sb);
      v.write_out(fmode, os);
      os.flush();
    }
    std::vector<char> buf = v.serialize(LAFEM::SerialConfig(false, false));
    const Snapshot ref = snap(v);   // only now: reading sorts the vector
    V_ back1, back2;
    {
      simfs::SimStreamBuf sb(file, 64, true);
      std::istream is(&sb);
      back1.read_from(fmode, is);
    }
    back2.deserialize(buf);
    compare(ref, snap(back1), false, std::string(what) + " written after " + std::to_string(nins) + " insertions into a vector of length " + std::to_string(n) + " (no read access before the write)");
    compare(ref, snap(back2), false, std::string(what) + " serialized after " + std::to_string(nins) + " insertions into a vector of length " + std::to_string(n) + " (no read access before)");
    CNT.roundtrips += 2; CNT.binary += 2;
    sim::probe(large ? "sparse_vector_grown_beyond_1000_entries" : "sparse_vector_written_with_pending_sort");
  }

  // symmetric MatrixMarket files: only the lower triangle is stored, the reader mirrors it
  template<typename DT_, typename IT_>
  void symmetric_mtx_roundtrip(Gen& g, const Shape& sh, size_t wchunk, size_t rchunk, bool vary)
  {
    const Index n = std::max<Index>(std::min<Index>(sh.rows, 14), 1);
    std::vector<char> pat(size_t(n * n), 0);
    std::vector<double> val(size_t(n * n), 0.0);
    for(Index i = 0; i < n; ++i) for(Index j = 0; j <= i; ++j)
      if(g.idx(1200) < Index(sh.density) || (i == j && g.idx(3) == 0)) { pat[size_t(i * n + j)] = pat[size_t(j * n + i)] = 1; val[size_t(i * n + j)] = val[size_t(j * n + i)] = g.val(); }
    std::vector<Index> ptr(n + 1, 0), idx;
    for(Index i = 0; i < n; ++i) { ptr[i] = Index(idx.size()); for(Index j = 0; j < n; ++j) if(pat[size_t(i * n + j)]) idx.push_back(j); }
    ptr[n] = Index(idx.size());
    Adjacency::Graph gr(n, n, Index(idx.size()));
    for(Index r = 0; r <= n; ++r) gr.get_domain_ptr()[r] = ptr[r];
    for(size_t i = 0; i < idx.size(); ++i) gr.get_image_idx()[i] = idx[i];
    SparseMatrixCSR<DT_, IT_> m(gr);
    for(Index i = 0; i < n; ++i) for(Index k = ptr[i]; k < ptr[i + 1]; ++k) m.val()[k] = DT_(val[size_t(i * n + idx[k])]);
    if(m.used_elements() == 0) return;   // entry-less matrices are covered by the general path
    Bytes file;
    {
      simfs::SimStreamBuf sb(file, wchunk, vary);
      std::ostream os(&sb);
      m.write_out(FileMode::fm_mtx, os, true);
      os.flush();
    }
    SparseMatrixCSR<DT_, IT_> back;
    {
      simfs::SimStreamBuf sb(file, rchunk, vary);
      std::istream is(&sb);
      back.read_from(FileMode::fm_mtx, is);
    }
    compare(snap_canon(m), snap_canon(back), true, "SparseMatrixCSR symmetric MatrixMarket file");
    ++CNT.roundtrips; ++CNT.text;
    sim::probe("symmetric_matrix_market_file");
  }

  // Pack::encode/decode directly (the layer below Container::_serialize): raw and type-converting packing with and
  // without byte swapping. decode(encode(x)) == x for representable values; the swapped encoding is the element-wise
  // byte-reversed plain encoding; the byte count is count * element_size.
  template<typename T_>
  void pack_roundtrip(const std::vector<T_>& src, Pack::Type pt, const char* what)
  {
    const size_t n = src.size(), es = Pack::element_size(pt);
    std::vector<unsigned char> plain(n * es + 64, 0xAB), swapped(n * es + 64, 0xCD);
    const size_t b0 = Pack::encode(plain.data(), src.data(), plain.size(), n, pt, false);
    const size_t b1 = Pack::encode(swapped.data(), src.data(), swapped.size(), n, pt, true);
    if(b0 != n * es || b1 != n * es) sim::fail("PACK", std::string(what) + ": encode wrote " + std::to_string(b0) + "/" + std::to_string(b1) + " bytes for " + std::to_string(n) + " elements of " + std::to_string(es) + " bytes");
    for(size_t i = n * es; i < plain.size(); ++i) if(plain[i] != 0xAB || swapped[i] != 0xCD) sim::fail("PACK", std::string(what) + ": encode wrote behind the packed data");
    for(size_t i = 0; i < n; ++i) for(size_t k = 0; k < es; ++k)
      if(plain[i * es + k] != swapped[i * es + (es - 1 - k)]) sim::fail("PACK", std::string(what) + ": byte-swapped encoding is not the byte-reversed plain encoding (element " + std::to_string(i) + ")");
    std::vector<T_> d0(n + 2, T_(77)), d1(n + 2, T_(77));
    const size_t c0 = Pack::decode(d0.data(), plain.data(), n, n * es, pt, false);
    const size_t c1 = Pack::decode(d1.data(), swapped.data(), n, n * es, pt, true);
    if(c0 != n * es || c1 != n * es) sim::fail("PACK", std::string(what) + ": decode consumed a wrong number of bytes");
    for(size_t i = 0; i < n; ++i) if(d0[i] != src[i] || d1[i] != src[i]) sim::fail("PACK", std::string(what) + ": decode(encode(x)) != x at element " + std::to_string(i));
    if(d0[n] != T_(77) || d0[n + 1] != T_(77) || d1[n] != T_(77)) sim::fail("PACK", std::string(what) + ": decode wrote behind the requested elements");
  }

  void pack_direct(Gen& g)
  {
    const size_t n = 1 + g.idx(40);
    std::vector<double> vd(n); std::vector<float> vf(n);
    std::vector<std::uint64_t> u64(n); std::vector<std::uint32_t> u32(n); std::vector<std::int64_t> i64(n); std::vector<int> i32(n);
    for(size_t i = 0; i < n; ++i)
    {
      vd[i] = g.val(); vf[i] = float(g.val());
      u64[i] = g.next() % 200u; u32[i] = std::uint32_t(g.next() % 200u);            // fit every unsigned width
      i64[i] = std::int64_t(g.next() % 200u) - 100; i32[i] = int(g.next() % 200u) - 100;   // fit every signed width
    }
    pack_roundtrip(vd, Pack::Type::F64, "double as F64"); pack_roundtrip(vd, Pack::Type::F32, "double as F32");
    pack_roundtrip(vf, Pack::Type::F64, "float as F64"); pack_roundtrip(vf, Pack::Type::F32, "float as F32");
    for(Pack::Type t : {Pack::Type::U8, Pack::Type::U16, Pack::Type::U32, Pack::Type::U64}) { pack_roundtrip(u64, t, "uint64 as U*"); pack_roundtrip(u32, t, "uint32 as U*"); }
    for(Pack::Type t : {Pack::Type::I8, Pack::Type::I16, Pack::Type::I32, Pack::Type::I64}) { pack_roundtrip(i64, t, "int64 as I*"); pack_roundtrip(i32, t, "int as I*"); }
  }

  // history on one BinaryStream (the in-memory stream CheckpointControl and the applications use): several containers
  // back to back, one of them is overwritten in place by a container of the same shape, a further one is appended after
  // everything was read once; every record must read back as what was written to it last.
  void binary_stream_history(Gen& g)
  {
    BinaryStream bs;
    const size_t nrec = 2 + g.idx(3);
    std::vector<DenseVector<double, Index>> recs;
    std::vector<std::streamoff> offs;
    for(size_t r = 0; r < nrec; ++r)
    {
      DenseVector<double, Index> v(Index(1 + g.idx(20)));
      for(Index i = 0; i < v.size(); ++i) v(i, g.val());
      offs.push_back(std::streamoff(bs.tellp()));
      v.write_out(FileMode::fm_dv, bs);
      recs.push_back(std::move(v));
    }
    const std::streamoff end0 = std::streamoff(bs.tellp());
    if(end0 != std::streamoff(bs.size())) sim::fail("BINARY_STREAM", "tellp() after sequential writes differs from the stream size");
    // overwrite record k in place
    const size_t k = g.idx(nrec);
    for(Index i = 0; i < recs[k].size(); ++i) recs[k](i, g.val());
    bs.seekp(offs[k]);
    if(!bs.good()) sim::fail("BINARY_STREAM", "seekp() to the start of a stored record failed");
    recs[k].write_out(FileMode::fm_dv, bs);
    if(std::streamoff(bs.size()) != end0) sim::fail("BINARY_STREAM", "overwriting a record in place changed the stream size from " + std::to_string(end0) + " to " + std::to_string(bs.size()));
    // read everything back
    bs.seekg(0);
    for(size_t r = 0; r < nrec; ++r)
    {
      if(std::streamoff(bs.tellg()) != offs[r]) sim::fail("BINARY_STREAM", "record " + std::to_string(r) + " does not start where it was written");
      DenseVector<double, Index> w;
      w.read_from(FileMode::fm_dv, bs);
      if(w.size() != recs[r].size()) sim::fail("BINARY_STREAM", "record " + std::to_string(r) + " of " + std::to_string(nrec) + " read back with another length after record " + std::to_string(k) + " was overwritten in place");
      for(Index i = 0; i < w.size(); ++i) if(w(i) != recs[r](i)) sim::fail("BINARY_STREAM", "record " + std::to_string(r) + " read back with other values after record " + std::to_string(k) + " was overwritten in place");
    }
    // append one more after reading, read it alone
    DenseVector<double, Index> extra(Index(1 + g.idx(9)));
    for(Index i = 0; i < extra.size(); ++i) extra(i, g.val());
    bs.seekp(0, std::ios_base::end);
    extra.write_out(FileMode::fm_dv, bs);
    bs.seekg(end0);
    if(!bs.good()) sim::fail("BINARY_STREAM", "seekg() to the start of the appended record failed");
    DenseVector<double, Index> w;
    w.read_from(FileMode::fm_dv, bs);
    if(w.size() != extra.size()) sim::fail("BINARY_STREAM", "appended record read back with another length");
    for(Index i = 0; i < w.size(); ++i) if(w(i) != extra(i)) sim::fail("BINARY_STREAM", "appended record read back with other values");
  }

  template<typename DT_, typename IT_>
  void run_types(int kind, Gen& g, const Shape& sh)
  {
    const ModeSpec exp{FileMode::fm_exp, true, "fm_exp"}, mtx{FileMode::fm_mtx, true, "fm_mtx"}, bin{FileMode::fm_binary, false, "fm_binary"};
    switch(kind)
    {
    case 0: exercise<DenseVector<DT_, IT_>>("DenseVector", make_dv<DT_, IT_>, {exp, mtx, {FileMode::fm_dv, false, "fm_dv"}, bin}, g, sh); break;
    case 1: exercise<DenseVectorBlocked<DT_, IT_, 3>>("DenseVectorBlocked3", make_dvb<DT_, IT_>, {exp, mtx, {FileMode::fm_dvb, false, "fm_dvb"}, bin}, g, sh); break;
    case 2: exercise<SparseVector<DT_, IT_>>("SparseVector", make_sv<DT_, IT_>, {mtx, {FileMode::fm_sv, false, "fm_sv"}, bin}, g, sh);
      if(g.idx(2) == 0) sparse_history<SparseVector<DT_, IT_>>(g, "SparseVector", g.idx(2) == 0 ? FileMode::fm_sv : FileMode::fm_binary,
        [](SparseVector<DT_, IT_>& v, Index i, Gen& gg) { v(i, DT_(gg.val())); });
      break;
    case 3: exercise<DenseMatrix<DT_, IT_>>("DenseMatrix", make_dm<DT_, IT_>, {mtx, {FileMode::fm_dm, false, "fm_dm"}, bin}, g, sh); break;
    case 4: exercise<SparseMatrixCSR<DT_, IT_>>("SparseMatrixCSR", make_csr<DT_, IT_>, {mtx, {FileMode::fm_csr, false, "fm_csr"}, bin}, g, sh);
      if(g.idx(3) == 0) symmetric_mtx_roundtrip<DT_, IT_>(g, sh, 64, 64, true);
      break;
    case 5: exercise<SparseMatrixBCSR<DT_, IT_, 2, 3>>("SparseMatrixBCSR2x3", make_bcsr<DT_, IT_>, {{FileMode::fm_bcsr, false, "fm_bcsr"}, bin}, g, sh); break;
    case 6: exercise<SparseMatrixBanded<DT_, IT_>>("SparseMatrixBanded", make_banded<DT_, IT_>, {{FileMode::fm_bm, false, "fm_bm"}, bin}, g, sh); break;
    case 8: exercise<SparseVectorBlocked<DT_, IT_, 2>>("SparseVectorBlocked2", make_svb<DT_, IT_>, {{FileMode::fm_svb, false, "fm_svb"}, bin}, g, sh);
      if(g.idx(2) == 0) sparse_history<SparseVectorBlocked<DT_, IT_, 2>>(g, "SparseVectorBlocked", g.idx(2) == 0 ? FileMode::fm_svb : FileMode::fm_binary,
        [](SparseVectorBlocked<DT_, IT_, 2>& v, Index i, Gen& gg) { Tiny::Vector<DT_, 2> t; t[0] = DT_(gg.val()); t[1] = DT_(gg.val()); v(i, t); });
      break;
    case 7: exercise<SparseMatrixCSCR<DT_, IT_>>("SparseMatrixCSCR", make_cscr<DT_, IT_>, {{FileMode::fm_cscr, false, "fm_cscr"}, bin}, g, sh); break;
    }
  }
}

HarnessInfo harness_info() { return {"C05", "c05_streams", 5000000}; }
void harness_process_init(int argc, char** argv) { Runtime::initialize(argc, argv); }

std::string harness_run()
{
  sim::pthread_model_reset();
  sim::clock_reset();
  CNT = Counters();
  int kind = int(sim::cfg_weighted("kind", {3, 2, 2, 2, 4, 3, 2, 2, 2}));
  int types = int(sim::cfg_int("types", 0, 3));
  Shape sh;
  sh.n = Index(sim::cfg_weighted("n", {2, 1, 1, 1, 1, 1, 1, 1, 1, 1, 1, 1, 1, 1, 1, 1, 1, 1, 1, 1, 1, 1, 1, 1, 1}));   // 0..24, 0 twice as likely
  sh.rows = Index(sim::cfg_int("rows", 1, 24));
  sh.cols = Index(sim::cfg_int("cols", 1, 24));
  sh.density = int(sim::cfg_weighted("density", {2, 2, 3, 3})) * 300;   // 0 = no entries at all
  uint64_t gseed = uint64_t(sim::cfg_int("gen", 0, 1 << 30));
  static const unsigned zp[4] = {0u, 0u, 2u, 6u};
  const unsigned zero_per_16 = zp[sim::cfg_weighted("stored_zeros", {2, 0, 1, 1})];
  if(zero_per_16) sim::probe("values_with_stored_zeros");
  if(sh.n == 0) ++CNT.zero_size;
  sim::spawn("io", [=]() {
    Gen g(gseed);
    g.zero_per_16 = zero_per_16;
    if((gseed & 3u) == 0u) pack_direct(g);
    if((gseed & 12u) == 4u) binary_stream_history(g);
    switch(types)
    {
    case 0: run_types<double, std::uint64_t>(kind, g, sh); break;
    case 1: run_types<float, std::uint64_t>(kind, g, sh); break;
    case 2: run_types<double, std::uint32_t>(kind, g, sh); break;
    case 3: run_types<float, std::uint32_t>(kind, g, sh); break;
    }
  });
  sim::run_go();
  if(MemoryPool::allocated_memory() != 0) sim::fail("POOL_NOT_EMPTY", "memory pool not empty after all containers of the run were destroyed");
  if(CNT.seeks_across) sim::probe("seek_back_across_chunk_boundary", CNT.seeks_across);
  if(CNT.empty_rows) sim::probe("matrix_with_empty_row");
  if(CNT.zero_size) sim::probe("length_zero_vector");
  if(sh.density == 0) sim::probe("matrix_without_entries");
  return "{\"roundtrips\":" + std::to_string(CNT.roundtrips) + ",\"binary\":" + std::to_string(CNT.binary) + ",\"text\":" + std::to_string(CNT.text) + ",\"type_converting\":" + std::to_string(CNT.converted) +
    ",\"multi_object_files\":" + std::to_string(CNT.multi) + ",\"bytes\":" + std::to_string(CNT.bytes) + "}";
}

int main(int argc, char** argv) { return harness_main(argc, argv); }
