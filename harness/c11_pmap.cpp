// C11 (property maps, graphs, permutations): seeded PropertyMap trees are dumped through a seeded chunked stream,
// parsed back and dumped again (tree equality + byte fixpoint); faulted pipeline as in c11_mesh.cpp: storage
// fault ops hit the stored INI text, the parser must end with a tree or with FEAT::SyntaxError - nothing else -
// and a truncation that leaves a section brace open must be rejected. Graph serialize()/Graph(buffer) and
// Permutation array round trips are checked on seeded instances.
#include "runner.hpp"
#include <cctype>
#include <memory>
#include <map>
#include "simfs/simstream.hpp"

#include <kernel/runtime.hpp>
#include <kernel/util/property_map.hpp>
#include <kernel/util/exception.hpp>
#include <kernel/adjacency/graph.hpp>
#include <kernel/adjacency/permutation.hpp>

#include <iostream>

using namespace FEAT;
using simfs::Bytes;

namespace
{
  struct Gen
  {
    uint64_t s;
    explicit Gen(uint64_t seed) : s(seed * 0x9E3779B97F4A7C15ull + 4711) {}
    uint64_t next() { s ^= s << 13; s ^= s >> 7; s ^= s << 17; return s; }
    size_t idx(size_t n) { return n == 0 ? 0 : size_t(next() % n); }
  };

  struct Counters { uint64_t trees = 0, entries = 0, sections = 0, faulted = 0, rejected = 0, accepted = 0, must_reject = 0, graphs = 0, perms = 0; } CNT;

  std::string gen_key(Gen& g, int i)
  {
    // a quarter of the names come from families in which one name is a proper prefix of another (tol / tol_abs,
    // rich / richardson-mgv as in the shipped solver configurations): keys are compared without case, not by prefix
    static const char* fam[] = {"tol", "tol_abs", "tol_abs_low", "rich", "richardson", "richardson-mgv", "a", "ab", "abc", "Max", "max-iter", "MAX-ITER-inner"};
    if(g.idx(4) == 0) return fam[g.idx(12)];
    static const char* stems[] = {"key", "Solver", "max-iter", "tol_rel", "a", "Mesh.File", "x y", "UPPER", "n0"};
    return std::string(stems[g.idx(9)]) + std::to_string(i);
  }

  // independent model of a property map: what the harness put in, keyed by lower-case names (names are case-insensitive)
  struct Model
  {
    std::map<std::string, std::string> entries;
    std::map<std::string, std::unique_ptr<Model>> sections;
  };
  std::string lower(std::string x) { for(char& c : x) c = char(std::tolower((unsigned char)c)); return x; }

  void compare_with_model(const PropertyMap& pm, const Model& m, const std::string& path, const char* when)
  {
    size_t ne = 0; for(auto it = pm.begin_entry(); it != pm.end_entry(); ++it) ++ne;
    if(ne != m.entries.size()) sim::fail("PMAP_MODEL", std::string(when) + ": section '" + path + "' holds " + std::to_string(ne) + " entries, " + std::to_string(m.entries.size()) + " distinct keys were stored");
    for(const auto& kv : m.entries)
    {
      auto r = pm.get_entry(String(kv.first));
      if(!r.second) sim::fail("PMAP_MODEL", std::string(when) + ": key '" + kv.first + "' of section '" + path + "' is gone");
      if(std::string(r.first) != kv.second) sim::fail("PMAP_MODEL", std::string(when) + ": key '" + kv.first + "' of section '" + path + "' holds '" + r.first + "', stored was '" + kv.second + "'");
    }
    size_t ns = 0; for(auto it = pm.begin_section(); it != pm.end_section(); ++it) ++ns;
    if(ns != m.sections.size()) sim::fail("PMAP_MODEL", std::string(when) + ": section '" + path + "' holds " + std::to_string(ns) + " sub-sections, " + std::to_string(m.sections.size()) + " distinct names were stored");
    for(const auto& kv : m.sections)
    {
      const PropertyMap* sub = pm.get_sub_section(String(kv.first));
      if(sub == nullptr) sim::fail("PMAP_MODEL", std::string(when) + ": sub-section '" + kv.first + "' of '" + path + "' is gone");
      compare_with_model(*sub, *kv.second, path + "/" + kv.first, when);
    }
  }

  std::string gen_value(Gen& g)
  {
    // anything the format documents as representable: no '#', no newline, no leading/trailing blanks,
    // no trailing '&' (line continuation); '=', brackets and braces inside a value are legal
    static const char* vals[] = {"", "42", "1E-8", "Hello World!", "a = b", "[not a section]", "x{y}z", "path/to/file.xml", "  ", "true", "3.14159 2.71828", "key=value=more", "&amp", "a&b", "}"};
    std::string v = vals[g.idx(15)];
    size_t b = v.find_first_not_of(" \t"), e = v.find_last_not_of(" \t");
    v = (b == std::string::npos) ? std::string() : v.substr(b, e - b + 1);
    if(v == "}") v = "} x";   // a value is free text, but a line consisting of the key only... keep it unambiguous
    return v;
  }

  void gen_tree(Gen& g, PropertyMap& pm, Model& m, int depth, int& budget)
  {
    int ne = int(g.idx(5));
    for(int i = 0; i < ne && budget > 0; ++i, --budget)
    {
      const std::string k = gen_key(g, i), v = gen_value(g);
      pm.add_entry(String(k), String(v));      // replaces the value of an existing key (compared without case)
      m.entries[lower(k)] = v;
      ++CNT.entries;
    }
    if(depth >= 3) return;
    int ns = int(g.idx(depth == 0 ? 4 : 3));
    for(int i = 0; i < ns && budget > 0; ++i, --budget)
    {
      static const char* names[] = {"Section", "sub", "Linear Solver", "A.B", "s"};
      static const char* fam[] = {"rich", "richardson-mgv", "Richardson", "mg", "mg-coarse", "s", "sub"};
      const std::string nm = (g.idx(4) == 0) ? std::string(fam[g.idx(7)]) : std::string(names[g.idx(5)]) + std::to_string(i);
      PropertyMap* sub = pm.add_section(String(nm));   // returns the existing section of that name, if any
      auto& ms = m.sections[lower(nm)];
      if(!ms) ms.reset(new Model);
      ++CNT.sections;
      gen_tree(g, *sub, *ms, depth + 1, budget);
    }
  }

  void compare_trees(const PropertyMap& a, const PropertyMap& b, const std::string& path)
  {
    auto ia = a.begin_entry(); auto ib = b.begin_entry();
    for(; ia != a.end_entry() && ib != b.end_entry(); ++ia, ++ib)
    {
      if(String(ia->first).compare_no_case(ib->first) != 0) sim::fail("PMAP_ROUNDTRIP", "key '" + ia->first + "' became '" + ib->first + "' in section '" + path + "'");
      if(ia->second != ib->second) sim::fail("PMAP_ROUNDTRIP", "value of '" + path + "/" + ia->first + "' changed: '" + ia->second + "' -> '" + ib->second + "'");
    }
    if(ia != a.end_entry() || ib != b.end_entry()) sim::fail("PMAP_ROUNDTRIP", "number of entries of section '" + path + "' changed");
    auto sa = a.begin_section(); auto sb = b.begin_section();
    for(; sa != a.end_section() && sb != b.end_section(); ++sa, ++sb)
    {
      if(String(sa->first).compare_no_case(sb->first) != 0) sim::fail("PMAP_ROUNDTRIP", "section '" + sa->first + "' became '" + sb->first + "'");
      compare_trees(*sa->second, *sb->second, path + "/" + sa->first);
    }
    if(sa != a.end_section() || sb != b.end_section()) sim::fail("PMAP_ROUNDTRIP", "number of sub-sections of '" + path + "' changed");
  }

  void write_tree(const PropertyMap& pm, Bytes& out, size_t chunk, bool vary)
  {
    simfs::SimStreamBuf sb(out, chunk, vary);
    std::ostream os(&sb);
    pm.write(os);
    os.flush();
  }

  // returns true if parsed, false if rejected with the documented exception
  bool read_tree(PropertyMap& pm, Bytes& in, size_t chunk, bool vary, size_t eof_limit, std::string& what)
  {
    simfs::SimStreamBuf sb(in, chunk, vary);
    sb.eof_limit = eof_limit;
    std::istream is(&sb);
    try { pm.read(is); }
    catch(const FEAT::Exception& e) { what = e.what(); return false; }
    catch(const std::exception& e) { sim::fail("FOREIGN_EXCEPTION", std::string("PropertyMap::read left with an undocumented exception: ") + e.what()); }
    if(sb.eof_refills > 1000) sim::fail("HANG", "PropertyMap::read kept reading at end of file");
    return true;
  }

  bool braces_unbalanced(const Bytes& b)
  {
    // complete-or-partial lines: "{" opens, a line starting with "}" (comment stripped) closes
    long open = 0; std::string line;
    auto flush = [&]() {
      size_t h = line.find('#'); if(h != std::string::npos) line.erase(h);
      size_t x = line.find_first_not_of(" \t\r"), y = line.find_last_not_of(" \t\r");
      std::string t = (x == std::string::npos) ? std::string() : line.substr(x, y - x + 1);
      if(t == "{") ++open; else if(t == "}") --open;
      line.clear();
    };
    for(char c : b) { if(c == '\n') flush(); else line += c; }
    flush();
    return open > 0;
  }

  void pmap_run(uint64_t gseed)
  {
    Gen g(gseed);
    size_t cw = simfs::draw_chunk("chunk_w1"), cr = simfs::draw_chunk("chunk_r1"), cw2 = simfs::draw_chunk("chunk_w2");
    const bool vary = sim::cfg_int("vary_chunks", 0, 2) != 0;
    PropertyMap t0;
    Model model;
    int budget = 40;
    gen_tree(g, t0, model, 0, budget);
    ++CNT.trees;
    compare_with_model(t0, model, "", "after building the tree");
    Bytes b1, b2;
    write_tree(t0, b1, cw, vary);
    PropertyMap t1;
    std::string what;
    if(!read_tree(t1, b1, cr, vary, size_t(-1), what)) sim::fail("PMAP_OWN_OUTPUT_REJECTED", "PropertyMap::read rejects the output of PropertyMap::write: " + what);
    compare_trees(t0, t1, "");
    compare_with_model(t1, model, "", "after dump and parse");
    write_tree(t1, b2, cw2, vary);
    if(b1 != b2) sim::fail("PMAP_ROUNDTRIP_BYTES", "second dump differs from the first");
    if(sim::cfg_int("faulted", 0, 2) == 0) return;

    Bytes bf = b1;
    simfs::FaultLog log;
    int nops = 1 + int(sim::cfg_weighted("fault_ops", {5, 2, 1}));
    for(int k = 0; k < nops; ++k)
    {
      int kind = int(sim::cfg_weighted(("fault_kind" + std::to_string(k)).c_str(), {5, 2, 1, 1, 4}));
      int bias = int(sim::cfg_int(("fault_bias" + std::to_string(k)).c_str(), 0, 1));
      switch(kind)
      {
      case 0: simfs::truncate_at(bf, log, bias); break;
      case 1: simfs::torn_block(bf, log); break;
      case 2: simfs::drop_block(bf, log); break;
      case 3: simfs::dup_block(bf, log); break;
      case 4: simfs::bitflip(bf, log, 0); break;
      }
    }
    size_t eof_limit = size_t(-1);
    if(sim::fault("EOF_EARLY") && !bf.empty()) { eof_limit = simfs::pick(bf.size(), "eof_at"); log.ops += "EOF_EARLY(" + std::to_string(eof_limit) + ") "; }
    // INI text is line based: a truncated file is invalid by construction only if a section brace stays open
    Bytes visible(bf.begin(), bf.begin() + long(std::min(eof_limit, bf.size())));
    const bool only_truncation = log.ops.find("TORN") == std::string::npos && log.ops.find("DROP") == std::string::npos && log.ops.find("DUP") == std::string::npos && log.ops.find("BITFLIP") == std::string::npos;
    const bool must_reject = only_truncation && braces_unbalanced(visible);
    sim::note("fault ops: " + log.ops);
    ++CNT.faulted;
    PropertyMap tf;
    bool ok = read_tree(tf, bf, simfs::draw_chunk("chunk_rf"), vary, eof_limit, what);
    if(!ok) { ++CNT.rejected; if(must_reject) ++CNT.must_reject; return; }
    ++CNT.accepted;
    if(must_reject) sim::fail("ACCEPTED_INVALID", "INI text with an unclosed section brace accepted after " + log.ops);
    // accepted after a fault: dumping and re-reading must reach a fixpoint
    Bytes b3, b4;
    write_tree(tf, b3, 4096, false);
    PropertyMap t3;
    if(!read_tree(t3, b3, 4096, false, size_t(-1), what)) sim::fail("ACCEPTED_NOT_REWRITABLE", "tree accepted after " + log.ops + "cannot be re-read after dumping: " + what);
    write_tree(t3, b4, 4096, false);
    if(b3 != b4) sim::fail("ACCEPTED_NO_FIXPOINT", "tree accepted after " + log.ops + "does not reach a dump/parse fixpoint");
  }

  void graph_run(uint64_t gseed)
  {
    Gen g(gseed);
    const Index nd = Index(g.idx(12)), ni = Index(1 + g.idx(12));
    std::vector<Index> ptr(nd + 1, 0), idx;
    for(Index r = 0; r < nd; ++r) { ptr[r] = Index(idx.size()); for(Index c = 0; c < ni; ++c) if(g.idx(3) == 0) idx.push_back(c); }
    ptr[nd] = Index(idx.size());
    Adjacency::Graph gr(nd, ni, Index(idx.size()));
    for(Index r = 0; r <= nd; ++r) gr.get_domain_ptr()[r] = ptr[r];
    for(size_t i = 0; i < idx.size(); ++i) gr.get_image_idx()[i] = idx[i];
    std::vector<char> buf = gr.serialize();
    Adjacency::Graph g2(buf);
    if(g2.get_num_nodes_domain() != nd || g2.get_num_nodes_image() != ni || g2.get_num_indices() != Index(idx.size())) sim::fail("GRAPH_ROUNDTRIP", "graph dimensions changed by serialize/deserialize");
    if(g2.get_domain_ptr() == nullptr)
    {
      // a graph without domain nodes may come back without arrays (representation, not content)
      if(nd > 0) sim::fail("GRAPH_ROUNDTRIP", "graph lost its domain pointer array");
    }
    else
      for(Index r = 0; r <= nd; ++r) if(g2.get_domain_ptr()[r] != ptr[r]) sim::fail("GRAPH_ROUNDTRIP", "graph domain pointer changed");
    for(size_t i = 0; i < idx.size(); ++i) if(g2.get_image_idx()[i] != idx[i]) sim::fail("GRAPH_ROUNDTRIP", "graph image index changed");
    if(nd > 0 && g2.serialize() != buf) sim::fail("GRAPH_ROUNDTRIP", "second serialisation differs");
    ++CNT.graphs;
    // permutation: perm array -> Permutation -> swap array -> Permutation -> perm array
    const Index n = Index(1 + g.idx(16));
    std::vector<Index> perm(n);
    for(Index i = 0; i < n; ++i) perm[i] = i;
    for(Index i = n; i > 1; --i) std::swap(perm[i - 1], perm[g.idx(i)]);
    Adjacency::Permutation p(n, Adjacency::Permutation::ConstrType::perm, perm.data());
    for(Index i = 0; i < n; ++i) if(p.get_perm_pos()[i] != perm[i]) sim::fail("PERM_ROUNDTRIP", "permutation array changed by construction");
    Adjacency::Permutation q(n, Adjacency::Permutation::ConstrType::swap, p.get_swap_pos());
    for(Index i = 0; i < n; ++i) if(q.get_perm_pos()[i] != perm[i]) sim::fail("PERM_ROUNDTRIP", "permutation changed by the swap-array round trip");
    Adjacency::Permutation inv = p.inverse();
    for(Index i = 0; i < n; ++i) if(inv.get_perm_pos()[perm[i]] != i) sim::fail("PERM_ROUNDTRIP", "inverse permutation wrong");
    ++CNT.perms;
  }
}

HarnessInfo harness_info() { return {"C11", "c11_pmap", 2000000}; }
void harness_process_init(int argc, char** argv) { Runtime::initialize(argc, argv); }

std::string harness_run()
{
  sim::pthread_model_reset();
  sim::clock_reset();
  sim::fault_setup("EOF_EARLY", {100, 300});
  CNT = Counters();
  uint64_t gseed = uint64_t(sim::cfg_int("gen", 0, 1 << 30));
  sim::spawn("io", [gseed]() { pmap_run(gseed); graph_run(gseed); });
  sim::run_go();
  return "{\"trees\":" + std::to_string(CNT.trees) + ",\"entries\":" + std::to_string(CNT.entries) + ",\"sections\":" + std::to_string(CNT.sections) + ",\"faulted_parses\":" + std::to_string(CNT.faulted) +
    ",\"rejected\":" + std::to_string(CNT.rejected) + ",\"accepted_after_fault\":" + std::to_string(CNT.accepted) + ",\"must_reject_rejected\":" + std::to_string(CNT.must_reject) +
    ",\"graphs\":" + std::to_string(CNT.graphs) + ",\"permutations\":" + std::to_string(CNT.perms) + "}";
}

int main(int argc, char** argv) { return harness_main(argc, argv); }
