// C05 / W2: checkpoint/restart of an n-rank job. Job A (world of n simulated ranks): every rank registers k seeded
// objects under seeded identifiers with the real Control::CheckpointControl and saves -> DistFileIO::write_combined
// -> MPI-IO on SimFS. Everything is dropped; only the SimFS file survives. Job B (fresh world, different schedule):
// load, restore in seeded order, compare with the reference copies (bit-identical). Also the BinaryStream variant
// and DistFileIO::{write,read}_combined with common data and a non-zero root (DESIGN.md 5.1).
#include "runner.hpp"
#include "simmpi/simmpi.hpp"

#include <kernel/runtime.hpp>
#include <kernel/util/dist.hpp>
#include <kernel/util/dist_file_io.hpp>
#include <kernel/util/binary_stream.hpp>
#include <kernel/lafem/dense_vector.hpp>
#include <kernel/lafem/dense_vector_blocked.hpp>
#include <kernel/lafem/sparse_matrix_csr.hpp>
#include <kernel/lafem/sparse_matrix_bcsr.hpp>
#include <kernel/lafem/sparse_vector.hpp>
#include <kernel/lafem/power_vector.hpp>
#include <kernel/lafem/tuple_vector.hpp>
#include <kernel/adjacency/graph.hpp>
#include <kernel/lafem/saddle_point_matrix.hpp>
#include <kernel/lafem/power_diag_matrix.hpp>
#include <kernel/lafem/power_col_matrix.hpp>
#include <kernel/lafem/power_row_matrix.hpp>
#include <kernel/lafem/power_full_matrix.hpp>
#include <kernel/lafem/tuple_diag_matrix.hpp>
#include <kernel/lafem/tuple_matrix.hpp>
#include <kernel/lafem/sparse_vector.hpp>
#include <kernel/lafem/sparse_matrix_banded.hpp>
#include <control/checkpoint_control.hpp>
#include <kernel/lafem/vector_mirror.hpp>
#include <kernel/global/gate.hpp>
#include <kernel/global/vector.hpp>

#include <map>

using namespace FEAT;
using namespace FEAT::LAFEM;

namespace
{
  struct Gen
  {
    uint64_t s;
    explicit Gen(uint64_t seed) : s(seed * 0x9E3779B97F4A7C15ull + 99) {}
    uint64_t next() { s ^= s << 13; s ^= s >> 7; s ^= s << 17; return s; }
    Index idx(Index n) { return n == 0 ? 0 : Index(next() % n); }
  };

  struct Snapshot
  {
    std::vector<std::vector<double>> elems;
    std::vector<std::vector<unsigned long long>> inds;
    std::vector<unsigned long long> scalars;
    bool operator==(const Snapshot& o) const { return elems == o.elems && inds == o.inds && scalars == o.scalars; }
  };
  template<typename C_>
  Snapshot snap(const C_& c)
  {
    Snapshot s;
    for(size_t a = 0; a < c.get_elements().size(); ++a) { std::vector<double> v(c.get_elements_size().at(a)); for(size_t i = 0; i < v.size(); ++i) v[i] = double(c.get_elements().at(a)[i]); s.elems.push_back(v); }
    for(size_t a = 0; a < c.get_indices().size(); ++a) { std::vector<unsigned long long> v(c.get_indices_size().at(a)); for(size_t i = 0; i < v.size(); ++i) v[i] = (unsigned long long)c.get_indices().at(a)[i]; s.inds.push_back(v); }
    for(auto x : c.get_scalar_index()) s.scalars.push_back((unsigned long long)x);
    return s;
  }

  // every value embeds rank, object number and position, so a mix-up of ranks or objects cannot go unnoticed
  inline double val(int rank, int obj, Index i) { return double(rank * 1000000 + obj * 10000) + double(i) * 0.125 + 0.5; }

  struct ObjRec { int kind; std::string id; Snapshot ref; bool removed = false; };
  struct RankPlan { std::vector<ObjRec> objs; std::vector<ObjRec> objs2; bool second = false; std::vector<char> raw; void* gate = nullptr; };
  struct Shared
  {
    int n = 1;
    std::vector<RankPlan> ranks;
    std::vector<char> common;
    uint64_t restored = 0, bs_roundtrips = 0, raw_bytes = 0, zero_buffers = 0;
  };
  Shared* SH = nullptr;

  // containers of one rank; kept alive while the checkpoint control refers to them
  typedef PowerVector<DenseVector<double, Index>, 3> PowVec3;
  typedef TupleVector<DenseVectorBlocked<double, Index, 2>, DenseVector<double, Index>> TupVec;

  Snapshot snap(const PowVec3& v)
  {
    Snapshot s;
    for(const auto* b : {&v.template at<0>(), &v.template at<1>(), &v.template at<2>()}) { Snapshot t = snap(*b); s.elems.insert(s.elems.end(), t.elems.begin(), t.elems.end()); s.scalars.insert(s.scalars.end(), t.scalars.begin(), t.scalars.end()); }
    return s;
  }
  Snapshot snap(const TupVec& v)
  {
    Snapshot s = snap(v.template at<0>()); Snapshot t = snap(v.template at<1>());
    s.elems.insert(s.elems.end(), t.elems.begin(), t.elems.end()); s.scalars.insert(s.scalars.end(), t.scalars.begin(), t.scalars.end());
    return s;
  }

  typedef SparseMatrixCSR<double, Index> Csr;
  typedef SaddlePointMatrix<Csr, Csr, Csr> SadMat;
  typedef PowerDiagMatrix<Csr, 2> PowDiag;
  typedef PowerColMatrix<Csr, 2> PowCol;
  typedef PowerRowMatrix<Csr, 3> PowRow;
  typedef PowerFullMatrix<Csr, 2, 2> PowFull;
  typedef TupleDiagMatrix<Csr, SparseMatrixBCSR<double, Index, 2, 2>> TupDiag;
  typedef TupleMatrix<TupleMatrixRow<Csr, Csr>, TupleMatrixRow<Csr, Csr>> TupMat;

  // nested meta containers: the Stokes layout (meta matrices as blocks of a saddle-point matrix) and a tuple of a power vector
  typedef SaddlePointMatrix<PowDiag, PowerColMatrix<Csr, 2>, PowerRowMatrix<Csr, 2>> StokesMat;
  typedef TupleVector<PowerVector<DenseVector<double, Index>, 2>, DenseVector<double, Index>> StokesVec;

  inline void snap_add(Snapshot& s, const Snapshot& t)
  {
    s.elems.insert(s.elems.end(), t.elems.begin(), t.elems.end());
    s.inds.insert(s.inds.end(), t.inds.begin(), t.inds.end());
    s.scalars.insert(s.scalars.end(), t.scalars.begin(), t.scalars.end());
  }
  Snapshot snap(const SadMat& m) { Snapshot s = snap(m.block_a()); snap_add(s, snap(m.block_b())); snap_add(s, snap(m.block_d())); return s; }
  Snapshot snap(const PowDiag& m) { Snapshot s = snap(m.template at<0, 0>()); snap_add(s, snap(m.template at<1, 1>())); return s; }
  Snapshot snap(const PowCol& m) { Snapshot s = snap(m.template at<0, 0>()); snap_add(s, snap(m.template at<1, 0>())); return s; }
  Snapshot snap(const PowRow& m) { Snapshot s = snap(m.template at<0, 0>()); snap_add(s, snap(m.template at<0, 1>())); snap_add(s, snap(m.template at<0, 2>())); return s; }
  Snapshot snap(const PowFull& m) { Snapshot s = snap(m.template at<0, 0>()); snap_add(s, snap(m.template at<0, 1>())); snap_add(s, snap(m.template at<1, 0>())); snap_add(s, snap(m.template at<1, 1>())); return s; }
  Snapshot snap(const TupDiag& m) { Snapshot s = snap(m.template at<0, 0>()); snap_add(s, snap(m.template at<1, 1>())); return s; }
  Snapshot snap(const TupMat& m) { Snapshot s = snap(m.template at<0, 0>()); snap_add(s, snap(m.template at<0, 1>())); snap_add(s, snap(m.template at<1, 0>())); snap_add(s, snap(m.template at<1, 1>())); return s; }

  Snapshot snap(const StokesMat& m)
  {
    Snapshot s = snap(m.block_a());
    snap_add(s, snap(m.block_b().template at<0, 0>())); snap_add(s, snap(m.block_b().template at<1, 0>()));
    snap_add(s, snap(m.block_d().template at<0, 0>())); snap_add(s, snap(m.block_d().template at<0, 1>()));
    return s;
  }
  Snapshot snap(const StokesVec& v)
  {
    Snapshot s = snap(v.template at<0>().template at<0>());
    snap_add(s, snap(v.template at<0>().template at<1>())); snap_add(s, snap(v.template at<1>()));
    return s;
  }

  // distributed vectors: a Global::Vector over a hand-made gate (a few DOFs shared by all ranks, one with the next and one
  // with the previous rank, the rest private). Its checkpoint is the checkpoint of the local vector - whatever the local
  // values are, consistent over the sharing ranks or not, they have to come back bit by bit
  typedef Global::Gate<DenseVector<double, Index>, VectorMirror<double, Index>> GGate;
  typedef Global::Vector<DenseVector<double, Index>, VectorMirror<double, Index>> GVec;
  constexpr Index G_SHARED = 3, G_LOCAL = G_SHARED + 2 + 4;
  void build_gate(GGate& gate, const Dist::Comm& comm)
  {
    const int n = comm.size(), r = comm.rank();
    gate.set_comm(&comm);
    for(int q = 0; q < n; ++q)
    {
      if(q == r) continue;
      std::vector<Index> ix;
      for(Index i = 0; i < G_SHARED; ++i) ix.push_back(i);
      // the ring DOFs: mine towards the next rank is the previous rank's DOF towards me and vice versa
      if(n > 2) { if(q == (r + 1) % n) ix.push_back(G_SHARED); if(q == (r + n - 1) % n) ix.push_back(G_SHARED + 1); }
      VectorMirror<double, Index> mir(G_LOCAL, Index(ix.size()));
      for(size_t i = 0; i < ix.size(); ++i) mir.indices()[i] = ix[i];
      gate.push(q, std::move(mir));
    }
    gate.compile(DenseVector<double, Index>(G_LOCAL));
  }

  struct Objects
  {
    std::vector<std::unique_ptr<GVec>> gvec;
    std::vector<std::unique_ptr<StokesMat>> stokes_m;
    std::vector<std::unique_ptr<StokesVec>> stokes_v;
    std::vector<std::unique_ptr<SadMat>> sad;
    std::vector<std::unique_ptr<PowDiag>> pdiag;
    std::vector<std::unique_ptr<PowCol>> pcol;
    std::vector<std::unique_ptr<PowRow>> prow;
    std::vector<std::unique_ptr<PowFull>> pfull;
    std::vector<std::unique_ptr<TupDiag>> tdiag;
    std::vector<std::unique_ptr<TupMat>> tmat;
    std::vector<std::unique_ptr<SparseVector<double, Index>>> sv;
    std::vector<std::unique_ptr<SparseMatrixBanded<double, Index>>> band;
    std::vector<std::unique_ptr<DenseVector<double, Index>>> dv;
    std::vector<std::unique_ptr<DenseVector<float, unsigned int>>> dvf;
    std::vector<std::unique_ptr<DenseVectorBlocked<double, Index, 2>>> dvb;
    std::vector<std::unique_ptr<SparseMatrixCSR<double, Index>>> csr;
    std::vector<std::unique_ptr<SparseMatrixBCSR<double, Index, 2, 2>>> bcsr;
    std::vector<std::unique_ptr<PowVec3>> pow;
    std::vector<std::unique_ptr<TupVec>> tup;
  };

  Adjacency::Graph make_graph(Gen& g, Index rows, Index cols)
  {
    std::vector<Index> ptr(rows + 1, 0), idx;
    for(Index r = 0; r < rows; ++r) { ptr[r] = Index(idx.size()); if(g.idx(6) != 0) for(Index c = 0; c < cols; ++c) if(g.idx(3) == 0) idx.push_back(c); }
    ptr[rows] = Index(idx.size());
    Adjacency::Graph gr(rows, cols, Index(idx.size()));
    for(Index r = 0; r <= rows; ++r) gr.get_domain_ptr()[r] = ptr[r];
    for(size_t i = 0; i < idx.size(); ++i) gr.get_image_idx()[i] = idx[i];
    return gr;
  }

  Csr make_csr(Gen& g, Index rows, Index cols, int rank, int o, Index off)
  {
    Csr m(make_graph(g, rows, cols));
    if(m.used_elements() > 0) for(Index i = 0; i < m.used_elements(); ++i) m.val()[i] = val(rank, o, i + off);
    return m;
  }

  // creates object number o of the given kind on this rank, registers it and records the reference copy
  void make_object(Objects& O, Control::CheckpointControl& cp, int rank, int o, ObjRec& rec, Gen& g, bool reg)
  {
    const Index n = g.idx(40);
    switch(rec.kind)
    {
    case 0: { O.dv.emplace_back(new DenseVector<double, Index>(n)); auto& v = *O.dv.back(); for(Index i = 0; i < n; ++i) v(i, val(rank, o, i)); rec.ref = snap(v); if(reg) cp.add_object(String(rec.id), v); } break;
    case 1: { O.dvf.emplace_back(new DenseVector<float, unsigned int>(n)); auto& v = *O.dvf.back(); for(Index i = 0; i < n; ++i) v(i, float(val(rank % 8, o % 8, i % 64))); rec.ref = snap(v); if(reg) cp.add_object(String(rec.id), v); } break;
    case 2: { O.dvb.emplace_back(new DenseVectorBlocked<double, Index, 2>(n)); auto& v = *O.dvb.back(); auto* p = v.template elements<Perspective::pod>(); for(Index i = 0; i < 2 * n; ++i) p[i] = val(rank, o, i); rec.ref = snap(v); if(reg) cp.add_object(String(rec.id), v); } break;
    case 3: { O.csr.emplace_back(new SparseMatrixCSR<double, Index>(make_graph(g, 1 + g.idx(12), 1 + g.idx(12)))); auto& m = *O.csr.back(); if(m.used_elements() > 0) for(Index i = 0; i < m.used_elements(); ++i) m.val()[i] = val(rank, o, i); rec.ref = snap(m); if(reg) cp.add_object(String(rec.id), m); } break;
    case 5: { O.pow.emplace_back(new PowVec3(std::max<Index>(n, 1))); auto& v = *O.pow.back(); for(Index i = 0; i < v.template at<0>().size(); ++i) { v.template at<0>()(i, val(rank, o, i)); v.template at<1>()(i, val(rank, o, i + 1000)); v.template at<2>()(i, val(rank, o, i + 2000)); } rec.ref = snap(v); if(reg) cp.add_object(String(rec.id), v); } break;
    case 6: { DenseVectorBlocked<double, Index, 2> a(std::max<Index>(n, 1)); auto* p = a.template elements<Perspective::pod>(); for(Index i = 0; i < 2 * a.size(); ++i) p[i] = val(rank, o, i);
              DenseVector<double, Index> b(1 + g.idx(20)); for(Index i = 0; i < b.size(); ++i) b(i, val(rank, o, i + 5000));
              O.tup.emplace_back(new TupVec(std::move(a), std::move(b))); auto& v = *O.tup.back(); rec.ref = snap(v); if(reg) cp.add_object(String(rec.id), v); } break;
    case 7: { const Index r1 = 1 + g.idx(8), r2 = 1 + g.idx(6);
              O.sad.emplace_back(new SadMat(make_csr(g, r1, r1, rank, o, 0), make_csr(g, r1, r2, rank, o, 1000), make_csr(g, r2, r1, rank, o, 2000)));
              auto& m = *O.sad.back(); rec.ref = snap(m); if(reg) cp.add_object(String(rec.id), m); } break;
    case 8: { const Index r1 = 1 + g.idx(8);
              O.pdiag.emplace_back(new PowDiag()); auto& m = *O.pdiag.back();
              m.template at<0, 0>() = make_csr(g, r1, r1, rank, o, 0); m.template at<1, 1>() = make_csr(g, r1, r1, rank, o, 1000);
              rec.ref = snap(m); if(reg) cp.add_object(String(rec.id), m); } break;
    case 9: { const Index r1 = 1 + g.idx(8), c1 = 1 + g.idx(8);
              O.pcol.emplace_back(new PowCol()); auto& m = *O.pcol.back();
              m.template at<0, 0>() = make_csr(g, r1, c1, rank, o, 0); m.template at<1, 0>() = make_csr(g, r1, c1, rank, o, 1000);
              rec.ref = snap(m); if(reg) cp.add_object(String(rec.id), m); } break;
    case 10: { const Index r1 = 1 + g.idx(8), c1 = 1 + g.idx(8);
              O.prow.emplace_back(new PowRow()); auto& m = *O.prow.back();
              m.template at<0, 0>() = make_csr(g, r1, c1, rank, o, 0); m.template at<0, 1>() = make_csr(g, r1, c1, rank, o, 1000); m.template at<0, 2>() = make_csr(g, r1, c1, rank, o, 2000);
              rec.ref = snap(m); if(reg) cp.add_object(String(rec.id), m); } break;
    case 11: { const Index r1 = 1 + g.idx(6);
              O.pfull.emplace_back(new PowFull()); auto& m = *O.pfull.back();
              m.template at<0, 0>() = make_csr(g, r1, r1, rank, o, 0); m.template at<0, 1>() = make_csr(g, r1, r1, rank, o, 1000);
              m.template at<1, 0>() = make_csr(g, r1, r1, rank, o, 2000); m.template at<1, 1>() = make_csr(g, r1, r1, rank, o, 3000);
              rec.ref = snap(m); if(reg) cp.add_object(String(rec.id), m); } break;
    case 12: { const Index r1 = 1 + g.idx(8), r2 = 1 + g.idx(5);
              O.tdiag.emplace_back(new TupDiag()); auto& m = *O.tdiag.back();
              m.template at<0, 0>() = make_csr(g, r1, r1, rank, o, 0);
              { SparseMatrixBCSR<double, Index, 2, 2> b(make_graph(g, r2, r2)); if(b.used_elements() > 0) { auto* p = b.template val<Perspective::pod>(); for(Index i = 0; i < b.template used_elements<Perspective::pod>(); ++i) p[i] = val(rank, o, i + 1000); } m.template at<1, 1>() = std::move(b); }
              rec.ref = snap(m); if(reg) cp.add_object(String(rec.id), m); } break;
    case 13: { const Index r1 = 1 + g.idx(6), r2 = 1 + g.idx(6);
              O.tmat.emplace_back(new TupMat()); auto& m = *O.tmat.back();
              m.template at<0, 0>() = make_csr(g, r1, r1, rank, o, 0); m.template at<0, 1>() = make_csr(g, r1, r2, rank, o, 1000);
              m.template at<1, 0>() = make_csr(g, r2, r1, rank, o, 2000); m.template at<1, 1>() = make_csr(g, r2, r2, rank, o, 3000);
              rec.ref = snap(m); if(reg) cp.add_object(String(rec.id), m); } break;
    case 16: { const Index nv = 1 + g.idx(6), np = 1 + g.idx(4);
              O.stokes_m.emplace_back(new StokesMat()); auto& m = *O.stokes_m.back();
              m.block_a().template at<0, 0>() = make_csr(g, nv, nv, rank, o, 0); m.block_a().template at<1, 1>() = make_csr(g, nv, nv, rank, o, 500);
              m.block_b().template at<0, 0>() = make_csr(g, nv, np, rank, o, 1000); m.block_b().template at<1, 0>() = make_csr(g, nv, np, rank, o, 1500);
              m.block_d().template at<0, 0>() = make_csr(g, np, nv, rank, o, 2000); m.block_d().template at<0, 1>() = make_csr(g, np, nv, rank, o, 2500);
              rec.ref = snap(m); if(reg) cp.add_object(String(rec.id), m); } break;
    case 17: { const Index nv = 1 + g.idx(12), np = 1 + g.idx(7);
              O.stokes_v.emplace_back(new StokesVec()); auto& v = *O.stokes_v.back();
              v.template at<0>().template at<0>() = DenseVector<double, Index>(nv); v.template at<0>().template at<1>() = DenseVector<double, Index>(nv); v.template at<1>() = DenseVector<double, Index>(np);
              for(Index i = 0; i < nv; ++i) { v.template at<0>().template at<0>()(i, val(rank, o, i)); v.template at<0>().template at<1>()(i, val(rank, o, i + 1000)); }
              for(Index i = 0; i < np; ++i) v.template at<1>()(i, val(rank, o, i + 2000));
              rec.ref = snap(v); if(reg) cp.add_object(String(rec.id), v); } break;
    case 14: { const Index sz = n + 1; O.sv.emplace_back(new SparseVector<double, Index>(sz)); auto& v = *O.sv.back();
              for(Index i = 0; i < sz; ++i) if(g.idx(3) == 0) v(i, val(rank, o, i));
              v.sort(); rec.ref = snap(v); if(reg) cp.add_object(String(rec.id), v); } break;
    case 15: { const Index r1 = 2 + g.idx(10);
              std::vector<Index> offs; for(Index d = 0; d < 2 * r1 - 1; ++d) if(g.idx(4) == 0) offs.push_back(d); if(offs.empty()) offs.push_back(r1 - 1);
              DenseVector<Index, Index> vo(Index(offs.size())); for(Index i = 0; i < vo.size(); ++i) vo(i, offs[i]);
              DenseVector<double, Index> vv(Index(offs.size()) * r1); for(Index i = 0; i < vv.size(); ++i) vv(i, val(rank, o, i));
              O.band.emplace_back(new SparseMatrixBanded<double, Index>(r1, r1, vv, vo)); auto& m = *O.band.back();
              rec.ref = snap(m); if(reg) cp.add_object(String(rec.id), m); } break;
    case 18: { GGate* gate = static_cast<GGate*>(SH->ranks[size_t(rank)].gate); O.gvec.emplace_back(new GVec(gate, DenseVector<double, Index>(G_LOCAL))); auto& v = *O.gvec.back();
              for(Index i = 0; i < G_LOCAL; ++i) v.local()(i, val(rank, o, i)); rec.ref = snap(v.local()); if(reg) cp.add_object(String(rec.id), v); } break;
    case 4: { O.bcsr.emplace_back(new SparseMatrixBCSR<double, Index, 2, 2>(make_graph(g, 1 + g.idx(8), 1 + g.idx(8)))); auto& m = *O.bcsr.back(); if(m.used_elements() > 0) { auto* p = m.template val<Perspective::pod>(); for(Index i = 0; i < m.template used_elements<Perspective::pod>(); ++i) p[i] = val(rank, o, i); } rec.ref = snap(m); if(reg) cp.add_object(String(rec.id), m); } break;
    }
  }

  template<typename C_>
  void restore_and_check(Control::CheckpointControl& cp, const ObjRec& rec, C_& target, int rank, const char* how)
  {
    cp.restore_object(String(rec.id), target, false);
    if(!(snap(target) == rec.ref))
      sim::fail("CHECKPOINT_MISMATCH", std::string("rank ") + std::to_string(rank) + ": object '" + rec.id + "' restored " + how + " differs from what was checkpointed");
    ++SH->restored;
  }

  void restore_one(Control::CheckpointControl& cp, const ObjRec& rec, int rank, Gen& g, const char* how)
  {
    // restore into a fresh object: default constructed or of a different initial size
    const Index pre = g.idx(3) == 0 ? 0 : 1 + g.idx(9);
    switch(rec.kind)
    {
    case 0: { DenseVector<double, Index> t(pre); restore_and_check(cp, rec, t, rank, how); } break;
    case 1: { DenseVector<float, unsigned int> t(pre); restore_and_check(cp, rec, t, rank, how); } break;
    case 2: { DenseVectorBlocked<double, Index, 2> t(pre); restore_and_check(cp, rec, t, rank, how); } break;
    case 3: { SparseMatrixCSR<double, Index> t; restore_and_check(cp, rec, t, rank, how); } break;
    case 4: { SparseMatrixBCSR<double, Index, 2, 2> t; restore_and_check(cp, rec, t, rank, how); } break;
    case 5: { PowVec3 t; restore_and_check(cp, rec, t, rank, how); } break;
    case 6: { TupVec t; restore_and_check(cp, rec, t, rank, how); } break;
    case 7: { SadMat t; restore_and_check(cp, rec, t, rank, how); } break;
    case 8: { PowDiag t; restore_and_check(cp, rec, t, rank, how); } break;
    case 9: { PowCol t; restore_and_check(cp, rec, t, rank, how); } break;
    case 10: { PowRow t; restore_and_check(cp, rec, t, rank, how); } break;
    case 11: { PowFull t; restore_and_check(cp, rec, t, rank, how); } break;
    case 12: { TupDiag t; restore_and_check(cp, rec, t, rank, how); } break;
    case 13: { TupMat t; restore_and_check(cp, rec, t, rank, how); } break;
    case 16: { StokesMat t; restore_and_check(cp, rec, t, rank, how); } break;
    case 17: { StokesVec t; restore_and_check(cp, rec, t, rank, how); } break;
    case 14: { SparseVector<double, Index> t(pre); restore_and_check(cp, rec, t, rank, how); } break;
    case 15: { SparseMatrixBanded<double, Index> t; restore_and_check(cp, rec, t, rank, how); } break;
    case 18:
      {
        GGate* gate = static_cast<GGate*>(SH->ranks[size_t(rank)].gate);
        GVec t(gate, DenseVector<double, Index>(pre == 0 ? G_LOCAL : pre));
        cp.restore_object(String(rec.id), t, false);
        if(!(snap(t.local()) == rec.ref)) sim::fail("CHECKPOINT_MISMATCH", std::string("rank ") + std::to_string(rank) + ": distributed vector '" + rec.id + "' restored " + how + " differs from what was checkpointed");
        ++SH->restored;
      }
      break;
    }
  }

  std::string make_id(Gen& g, int o, const std::vector<ObjRec>& prev)
  {
    // identifiers that are prefixes of one another, of length 1, and long ones
    switch(g.idx(5))
    {
    case 0: return std::string(1, char('a' + o));
    case 1: if(!prev.empty()) return prev[g.idx(Index(prev.size()))].id + char('0' + o); return "x";
    case 2: return "object_with_a_rather_long_identifier_number_" + std::to_string(o) + std::string(g.idx(60), 'z');
    case 3: return "v" + std::to_string(o);
    default: return "sys." + std::to_string(o) + ".level";
    }
  }

  // ---- job A: build, register, save ------------------------------------------------------------------
  void job_a(int rank, uint64_t seed, int max_objs, int root, bool with_raw)
  {
    Dist::Comm comm = Dist::Comm::world();
    Gen g(seed * 131 + uint64_t(rank));
    RankPlan& plan = SH->ranks[size_t(rank)];
    GGate gate_a; build_gate(gate_a, comm);
    SH->ranks[size_t(rank)].gate = &gate_a;
    Objects O;
    Control::CheckpointControl cp(comm, LAFEM::SerialConfig(false, false));
    const int k = int(g.idx(Index(max_objs) + 1));
    for(int o = 0; o < k; ++o)
    {
      ObjRec rec; rec.kind = int(g.idx(19));
      do { rec.id = make_id(g, o, plan.objs); } while(std::any_of(plan.objs.begin(), plan.objs.end(), [&](const ObjRec& r) { return r.id == rec.id; }));
      make_object(O, cp, rank, o, rec, g, true);
      plan.objs.push_back(rec);
    }
    // history: remove some objects again before saving
    for(auto& r : plan.objs) if(g.idx(5) == 0) { cp.remove_object(String(r.id)); r.removed = true; }
    cp.save(String("job.cp"));
    // BinaryStream variant, rank-local
    if(getenv("C05_SKIP_EMPTY_BS") == nullptr || std::any_of(plan.objs.begin(), plan.objs.end(), [](const ObjRec& r) { return !r.removed; }))
    {
      BinaryStream bs;
      cp.save(bs);
      Control::CheckpointControl cp2(comm, LAFEM::SerialConfig(false, false));
      cp2.load(bs);
      for(const auto& r : plan.objs) if(!r.removed) restore_one(cp2, r, rank, g, "from a BinaryStream");
      ++SH->bs_roundtrips;
    }
    // history: the job goes on - objects are removed, added and change their size - and a second checkpoint is
    // written (all ranks agree on whether there is one, save() is collective)
    plan.second = (seed % 3) != 0;
    if(plan.second)
    {
      int o2 = 100;
      for(auto& r : plan.objs)
      {
        if(r.removed) continue;
        if(g.idx(3) == 0) { cp.remove_object(String(r.id)); continue; }       // dropped from the second checkpoint
        plan.objs2.push_back(r);                                              // unchanged object, possibly at another offset now
      }
      const int extra = int(g.idx(3));
      for(int e = 0; e < extra; ++e, ++o2)
      {
        ObjRec rec; rec.kind = int(g.idx(19));
        do { rec.id = make_id(g, o2 % 20, plan.objs2); } while(std::any_of(plan.objs.begin(), plan.objs.end(), [&](const ObjRec& r) { return r.id == rec.id; }) || std::any_of(plan.objs2.begin(), plan.objs2.end(), [&](const ObjRec& r) { return r.id == rec.id; }));
        make_object(O, cp, rank, o2, rec, g, true);
        plan.objs2.push_back(rec);
      }
      cp.save(String("job2.cp"));
    }
    if(with_raw)
    {
      // DistFileIO directly: per-rank buffers of different (also zero) length, common data, non-zero root
      const Index len = g.idx(4) == 0 ? 0 : g.idx(300);
      plan.raw.resize(len);
      for(Index i = 0; i < len; ++i) plan.raw[i] = char((rank * 37 + int(i) * 11) & 0xff);
      if(len == 0) ++SH->zero_buffers;
      SH->raw_bytes += len;
      DistFileIO::write_combined(SH->common, plan.raw, String("raw.bin"), comm, root);
      // ordered file: the ranks' buffers back to back in rank order, no header; written twice to exercise truncation
      if(((seed >> 3) & 1u) == 0u)   // the same decision on all ranks: write_ordered is collective
      {
        std::vector<char> junk(plan.raw.size() + 17u, 'x');
        DistFileIO::write_ordered(junk.data(), junk.size(), String("ord.bin"), comm, true);
      }
      DistFileIO::write_ordered(plan.raw.data(), plan.raw.size(), String("ord.bin"), comm, true);
    }
    comm.barrier();
  }

  // ---- job B: fresh world, only the file survived -----------------------------------------------------
  void job_b(int rank, uint64_t seed, int root, bool with_raw, bool reload)
  {
    Dist::Comm comm = Dist::Comm::world();
    Gen g(seed * 977 + uint64_t(rank) * 13 + 5);
    GGate gate_b; build_gate(gate_b, comm);
    SH->ranks[size_t(rank)].gate = &gate_b;
    const RankPlan& plan = SH->ranks[size_t(rank)];
    Control::CheckpointControl cp(comm, LAFEM::SerialConfig(false, false));
    cp.load(String("job.cp"));
    if(reload) { cp.clear_input(); cp.load(String("job.cp")); }
    // restore in seeded order
    std::vector<size_t> order;
    for(size_t i = 0; i < plan.objs.size(); ++i) if(!plan.objs[i].removed) order.push_back(i);
    for(size_t i = order.size(); i > 1; --i) std::swap(order[i - 1], order[g.idx(Index(i))]);
    for(size_t i : order) if(!plan.second || g.idx(2) == 0) restore_one(cp, plan.objs[i], rank, g, "after restart");
    if(plan.second)
    {
      // the same control reads the later checkpoint: identifiers now live at other offsets
      cp.clear_input();
      cp.load(String("job2.cp"));
      std::vector<size_t> order2;
      for(size_t i = 0; i < plan.objs2.size(); ++i) order2.push_back(i);
      for(size_t i = order2.size(); i > 1; --i) std::swap(order2[i - 1], order2[g.idx(Index(i))]);
      for(size_t i : order2) restore_one(cp, plan.objs2[i], rank, g, "from the second checkpoint read by the same control");
    }
    if(with_raw)
    {
      std::vector<char> common, buf;
      DistFileIO::read_combined(common, buf, String("raw.bin"), comm, root, true);
      if(buf != plan.raw) sim::fail("COMBINED_FILE_MISMATCH", "rank " + std::to_string(rank) + ": read_combined returned " + std::to_string(buf.size()) + " bytes, " + std::to_string(plan.raw.size()) + " were written (or content differs)");
      if(common != SH->common) sim::fail("COMBINED_FILE_MISMATCH", "rank " + std::to_string(rank) + ": common data of the combined file differs");
      std::vector<char> ob(plan.raw.size(), '?');
      DistFileIO::read_ordered(ob.data(), ob.size(), String("ord.bin"), comm);
      if(ob != plan.raw) sim::fail("ORDERED_FILE_MISMATCH", "rank " + std::to_string(rank) + ": read_ordered returned other bytes than write_ordered wrote");
    }
    comm.barrier();
  }
}

HarnessInfo harness_info() { return {"C05", "c05_checkpoint", 5000000}; }
void harness_process_init(int argc, char** argv) { Runtime::initialize(argc, argv); }

std::string harness_run()
{
  sim::pthread_model_reset();
  sim::clock_reset();
  Shared sh;
  SH = &sh;
  static const int ns[8] = {1, 2, 3, 4, 5, 8, 12, 16};
  sh.n = ns[sim::cfg_int("n_idx", 0, 7)];
  sh.ranks.resize(size_t(sh.n));
  const uint64_t seed = uint64_t(sim::cfg_int("gen", 0, 1 << 30));
  const int max_objs = int(sim::cfg_int("max_objs", 0, 6));
  const int root = int(sim::cfg_int("root", 0, 15)) % sh.n;
  const bool with_raw = sim::cfg_int("raw", 0, 1) == 1;
  const bool reload = sim::cfg_int("reload", 0, 3) == 0;
  const int common_len = int(sim::cfg_weighted("common", {2, 1, 1})) == 0 ? 0 : int(sim::cfg_int("common_len", 1, 200));
  for(int i = 0; i < common_len; ++i) sh.common.push_back(char(i * 7 + 3));
  simmpi::fs_clear();
  const int n = sh.n;
  simmpi::world_begin(n, [=](int r) { job_a(r, seed, max_objs, root, with_raw); });
  sim::run_go();
  simmpi::world_end();
  // the job is over: only the SimFS files survive
  if(simmpi::fs().find("job.cp") == simmpi::fs().end()) sim::fail("CHECKPOINT_FILE_MISSING", "save() did not create the checkpoint file");
  const size_t fsize = simmpi::fs()["job.cp"]->data.size();
  {
    // header of a combined file: magic, file size, number of ranks, common size
    const std::vector<char>& d = simmpi::fs()["job.cp"]->data;
    if(d.size() < 32) sim::fail("CHECKPOINT_FILE_LAYOUT", "checkpoint file shorter than its header");
    unsigned long long h[4]; memcpy(h, d.data(), 32);
    if(h[1] != d.size()) sim::fail("CHECKPOINT_FILE_LAYOUT", "file size field " + std::to_string(h[1]) + " differs from the actual file size " + std::to_string(d.size()));
    if(h[2] != (unsigned long long)n) sim::fail("CHECKPOINT_FILE_LAYOUT", "rank count field wrong");
  }
  if(with_raw)
  {
    // an ordered file is the ranks' buffers in rank order and nothing else (the earlier, longer content is gone)
    std::vector<char> want;
    for(const RankPlan& rp : sh.ranks) want.insert(want.end(), rp.raw.begin(), rp.raw.end());
    if(simmpi::fs().find("ord.bin") == simmpi::fs().end()) sim::fail("ORDERED_FILE_MISMATCH", "write_ordered did not create the file");
    if(simmpi::fs()["ord.bin"]->data != want) sim::fail("ORDERED_FILE_MISMATCH", "ordered file holds " + std::to_string(simmpi::fs()["ord.bin"]->data.size()) + " bytes, the ranks wrote " + std::to_string(want.size()) + " (or content/order differs)");
  }
  simmpi::world_begin(n, [=](int r) { job_b(r, seed, root, with_raw, reload); });
  sim::run_go();
  simmpi::world_end();
  SH = nullptr;
  if(MemoryPool::allocated_memory() != 0) sim::fail("POOL_NOT_EMPTY", "memory pool not empty after both jobs");
  if(sh.zero_buffers) sim::probe("rank_with_zero_length_buffer", sh.zero_buffers);
  return "{\"ranks\":" + std::to_string(n) + ",\"objects_restored\":" + std::to_string(sh.restored) + ",\"binarystream_roundtrips\":" + std::to_string(sh.bs_roundtrips) +
    ",\"checkpoint_file_bytes\":" + std::to_string(fsize) + ",\"raw_bytes\":" + std::to_string(sh.raw_bytes) + "}";
}

int main(int argc, char** argv) { return harness_main(argc, argv); }
