// C13 / blocked vectors (vector kind "blocked", block size 2): Control::BlockedUnitFilterSystemLevel with the blocked
// Laplace operator on Lagrange-1, n simulated ranks vs. one rank. Oracles as in c13_kit.hpp, per component:
// sync_0 exact on integer data, sync_1, gate frequencies, dot/norm2, A*x, solve of A u = A x* (PCG + V-cycle multigrid).
#include "world_common.hpp"

#include <kernel/assembly/common_operators.hpp>
#include <kernel/assembly/domain_assembler_helpers.hpp>
#include <kernel/solver/pcg.hpp>
#include <kernel/solver/richardson.hpp>
#include <kernel/solver/jacobi_precond.hpp>
#include <kernel/solver/multigrid.hpp>
#include <control/blocked_basic.hpp>
#include <control/asm/slip_filter_asm.hpp>
#include <kernel/lafem/slip_filter.hpp>

#include <cmath>
#include <map>
#include <set>

using namespace FEAT;

namespace
{
  inline double h_int(long long key, int rank, int c) { return double(((unsigned long long)(key * 2654435761ll + rank * 40503ll + c * 977 + 12345) % 1048576ull)) - 524288.0; }
  inline double g_val(long long key, int salt, int c) { return double(((unsigned long long)(key * 1103515245ll + salt * 7919ll + c * 31 + 11) % 4096ull)) / 64.0 - 32.0; }

  struct LevelOut { int layer = -1, level = -1, layer_rank = -1, layer_size = 0; std::vector<long long> keys; std::vector<double> s0, s1, freqs, prol, rest; };
  struct RankOut
  {
    std::vector<LevelOut> levels;
    std::vector<long long> keys;
    std::vector<double> ax, sol;
    double dot = 0, norm2 = 0, def_init = 0, def_final = 0;
    double noise_sol = 0; long noise_iters = 0;   // reference world: noise floor of the solve (see c13_kit.hpp)
    std::vector<std::pair<long long, std::pair<double, double>>> slip;   // synchronised slip filter: DOF key -> unit outer normal
    std::vector<double> slip_filtered;   // a consistent vector after filter_def, two components per DOF
    int status = -1; Index iters = 0; int cmax = 0, cmin = 0; std::string chosen;
  };
  struct Shared { wc::VertexDict dict; std::vector<RankOut> a, b; };
  Shared* SH = nullptr;
  struct Counters { uint64_t sync0 = 0, shared = 0, matvec = 0, iters = 0, transfer = 0; } CNT;

  typedef Geometry::ConformalMesh<FEAT::Shape::Hypercube<2>> MeshType;
  typedef Trafo::Standard::Mapping<MeshType> TrafoType;
  typedef Space::Lagrange1::Element<TrafoType> SpaceType;
  typedef Control::Domain::SimpleDomainLevel<MeshType, TrafoType, SpaceType> DomainLevelType;
  typedef wc::SimPDC<DomainLevelType> DomainType;
  typedef Control::BlockedUnitFilterSystemLevel<2, double, Index> SystemLevelType;
  typedef SystemLevelType::GlobalSystemVector GlobalSystemVector;
  typedef SystemLevelType::LocalSystemVector LocalVector;

  std::vector<long long> dof_keys(const MeshType& mesh)
  {
    const auto& vtx = mesh.get_vertex_set();
    std::vector<long long> k(mesh.get_num_entities(0));
    for(Index i = 0; i < mesh.get_num_entities(0); ++i) { double x[3] = {double(vtx[i][0]), double(vtx[i][1]), 0}; k[i] = SH->dict.get(x, 2); }
    return k;
  }

  void rank_body(int wrank, const wc::WorldCfg& cfg, bool reference, int ref_max, int ref_min, std::vector<RankOut>& outs)
  {
    Dist::Comm comm = Dist::Comm::world();
    DomainType domain(comm, true);
    if(reference) { domain.select_partitioners(true, true, true, false, 0, 0, 1); domain.set_desired_levels(ref_max, ref_min); }
    else
    {
      switch(cfg.parti)
      {
      case 0: domain.select_partitioners(true, true, true, false, 0, 0, cfg.rank_elems); break;
      case 1: case 2: domain.select_partitioners(false, false, true, false, 0, 0, cfg.rank_elems); break;
      case 3: domain.select_partitioners(false, false, true, false, 0, 0, 1);
        domain.use_explicit = true; domain.explicit_level = cfg.assign_level; domain.explicit_seed = cfg.assign_seed; domain.explicit_mode = cfg.adapt; break;
      }
      domain.set_desired_levels(String(cfg.levels));
    }
    std::deque<String> files; files.push_back(String(cfg.mesh_file));
    domain.create(files, String("/repo/data/meshes"));
    domain.add_trafo_mesh_part_charts();
    RankOut& out = outs[size_t(wrank)];
    out.chosen = domain.format_chosen_levels();
    out.cmax = domain.get_chosen_levels().front().first;
    out.cmin = domain.get_chosen_levels().back().first;

    const Index num_levels = Index(domain.size_physical());
    std::deque<std::shared_ptr<SystemLevelType>> system_levels;
    for(Index i = 0; i < num_levels; ++i) system_levels.push_back(std::make_shared<SystemLevelType>());
    const String cubature("auto-degree:5");
    for(Index i = 0; i < num_levels; ++i) { domain.at(i)->domain_asm.compile_all_elements(); system_levels.at(i)->assemble_gate(domain.at(i)); }
    for(Index i = 0; (i < domain.size_physical()) && ((i + 1) < domain.size_virtual()); ++i)
    {
      system_levels.at(i)->assemble_coarse_muxer(domain.at(i + 1));
      if((i + 1) < domain.size_physical()) system_levels.at(i)->assemble_transfer(*system_levels.at(i + 1), domain.at(i), domain.at(i + 1), cubature);
      else system_levels.at(i)->assemble_transfer(domain.at(i), domain.at(i + 1), cubature);
    }
    for(Index i = 0; i < num_levels; ++i) system_levels.at(i)->assemble_laplace_matrix(domain.at(i)->domain_asm, domain.at(i)->space, cubature);
    for(Index i = 0; i < num_levels; ++i) system_levels.at(i)->assemble_homogeneous_unit_filter(*domain.at(i), domain.at(i)->space);

    for(Index i = 0; i < num_levels; ++i)
    {
      LevelOut lo;
      const auto& vl = domain.at(i);
      lo.layer = vl.layer().get_layer_index(); lo.level = vl->get_level_index();
      lo.layer_rank = vl.layer().comm().rank(); lo.layer_size = vl.layer().comm().size();
      lo.keys = dof_keys(vl->get_mesh());
      const auto& gate = system_levels.at(i)->gate_sys;
      const Index nd = Index(lo.keys.size());
      LocalVector v0(nd), v1(nd);
      for(Index d = 0; d < nd; ++d)
      {
        Tiny::Vector<double, 2> a, b;
        for(int c = 0; c < 2; ++c) { a[c] = h_int(lo.keys[d], lo.layer_rank, c); b[c] = g_val(lo.keys[d], 3, c); }
        v0(d, a); v1(d, b);
      }
      gate.sync_0(v0);
      gate.sync_1(v1);
      for(Index d = 0; d < nd; ++d) for(int c = 0; c < 2; ++c) { lo.s0.push_back(v0(d)[c]); lo.s1.push_back(v1(d)[c]); lo.freqs.push_back(gate.get_freqs()(d)[c]); }
      out.levels.push_back(std::move(lo));
    }

    // grid transfer of blocked vectors applied directly (see c13_kit.hpp): consistent test vectors down by restriction,
    // up by prolongation, across layer boundaries through the muxer
    for(Index i = 0; (i < domain.size_physical()) && ((i + 1) < domain.size_virtual()); ++i)
    {
      const auto& tr = system_levels.at(i)->transfer_sys;
      LevelOut& lf = out.levels.at(i);
      const Index nf = Index(lf.keys.size());
      GlobalSystemVector vf(&system_levels.at(i)->gate_sys, LocalVector(nf)), vp(&system_levels.at(i)->gate_sys, LocalVector(nf));
      for(Index d = 0; d < nf; ++d) { Tiny::Vector<double, 2> a; a[0] = g_val(lf.keys[d], 41, 0); a[1] = g_val(lf.keys[d], 41, 1); vf.local()(d, a); }
      vp.format();
      if((i + 1) < domain.size_physical())
      {
        LevelOut& lc = out.levels.at(i + 1);
        const Index nc = Index(lc.keys.size());
        GlobalSystemVector vc(&system_levels.at(i + 1)->gate_sys, LocalVector(nc)), vr(&system_levels.at(i + 1)->gate_sys, LocalVector(nc));
        for(Index d = 0; d < nc; ++d) { Tiny::Vector<double, 2> a; a[0] = g_val(lc.keys[d], 42, 0); a[1] = g_val(lc.keys[d], 42, 1); vc.local()(d, a); }
        vr.format();
        tr.rest(vf, vr);
        for(Index d = 0; d < nc; ++d) { lc.rest.push_back(vr.local()(d)[0]); lc.rest.push_back(vr.local()(d)[1]); }
        tr.prol(vp, vc);
      }
      else
      {
        tr.rest_send(vf);
        tr.prol_recv(vp);
      }
      for(Index d = 0; d < nf; ++d) { lf.prol.push_back(vp.local()(d)[0]); lf.prol.push_back(vp.local()(d)[1]); }
    }

    DomainLevelType& the_domain_level = *domain.front();
    SystemLevelType& the_system_level = *system_levels.front();
    out.keys = dof_keys(the_domain_level.get_mesh());
    const Index nd = Index(out.keys.size());
    {
      // slip filter on the whole boundary: every rank assembles the normals of its own boundary facets, the gate adds them
      // up and they are normalised - must give the filter of the undecomposed mesh on every rank that holds the DOF
      LAFEM::SlipFilter<double, Index, 2> slip;
      // the parts of the boundary only (named bnd:* in all mesh files used here): interior mesh parts have no outer normal
      // - which of the two adjacent cells defines it depends on the patch -, a slip filter on them is not a meaningful input
      String slip_parts;
      for(const auto& n : the_domain_level.get_mesh_node()->get_mesh_part_names(true)) if(n.compare(0, 4, "bnd:") == 0) slip_parts += (slip_parts.empty() ? "" : " ") + n;
      Control::Asm::asm_slip_filter(slip, the_domain_level, the_domain_level.space, slip_parts);
      Control::Asm::sync_slip_filter(the_system_level.gate_sys, slip);
      const auto& fv = slip.get_filter_vector();
      for(Index k = 0; k < fv.used_elements(); ++k)
      {
        const Index d = fv.indices()[k];
        const auto nv = fv.template elements<LAFEM::Perspective::native>()[k];
        out.slip.push_back({out.keys[d], {double(nv[0]), double(nv[1])}});
      }
      // the observable: a consistent (type-1) vector filtered by every rank
      LocalVector fv1(nd);
      for(Index d = 0; d < nd; ++d) { Tiny::Vector<double, 2> a; a[0] = g_val(out.keys[d], 7, 0); a[1] = g_val(out.keys[d], 7, 1); fv1(d, a); }
      slip.filter_def(fv1);
      for(Index d = 0; d < nd; ++d) { out.slip_filtered.push_back(fv1(d)[0]); out.slip_filtered.push_back(fv1(d)[1]); }
    }
    GlobalSystemVector gx = the_system_level.matrix_sys.create_vector_r();
    GlobalSystemVector gy = the_system_level.matrix_sys.create_vector_r();
    GlobalSystemVector gr = the_system_level.matrix_sys.create_vector_l();
    for(Index d = 0; d < nd; ++d)
    {
      Tiny::Vector<double, 2> a, b;
      for(int c = 0; c < 2; ++c) { a[c] = g_val(out.keys[d], 1, c); b[c] = g_val(out.keys[d], 2, c); }
      gx.local()(d, a); gy.local()(d, b);
    }
    out.dot = gx.dot(gy);
    out.norm2 = gx.norm2();
    // make x* compatible with the homogeneous Dirichlet filter, then b = A x*
    the_system_level.filter_sys.filter_sol(gx);
    the_system_level.matrix_sys.apply(gr, gx);
    for(Index d = 0; d < nd; ++d) for(int c = 0; c < 2; ++c) out.ax.push_back(gr.local()(d)[c]);
    GlobalSystemVector vec_rhs = gr.clone();
    GlobalSystemVector vec_sol = the_system_level.matrix_sys.create_vector_r();
    vec_sol.format();
    the_system_level.filter_sys.filter_sol(vec_sol);
    the_system_level.filter_sys.filter_rhs(vec_rhs);

    auto mgh = std::make_shared<Solver::MultiGridHierarchy<SystemLevelType::GlobalSystemMatrix, SystemLevelType::GlobalSystemFilter, SystemLevelType::GlobalSystemTransfer>>(domain.size_virtual());
    for(Index i = 0; i < num_levels; ++i)
    {
      const SystemLevelType& lvl = *system_levels.at(i);
      auto jacobi = Solver::new_jacobi_precond(lvl.matrix_sys, lvl.filter_sys, 0.7);
      auto smoother = Solver::new_richardson(lvl.matrix_sys, lvl.filter_sys, 1.0, jacobi);
      smoother->set_min_iter(4); smoother->set_max_iter(4);
      if((i + 1) < domain.size_virtual()) mgh->push_level(lvl.matrix_sys, lvl.filter_sys, lvl.transfer_sys, smoother, smoother, smoother);
      else mgh->push_level(lvl.matrix_sys, lvl.filter_sys, smoother);
    }
    auto mgv = Solver::new_multigrid(mgh, Solver::MultiGridCycle::V);
    auto solver = Solver::new_pcg(the_system_level.matrix_sys, the_system_level.filter_sys, mgv);
    solver->set_plot_mode(Solver::PlotMode::none);
    solver->set_tol_rel(1E-8);
    solver->set_max_iter(50);
    mgh->init();
    solver->init();
    auto result = Solver::solve(*solver, vec_sol, vec_rhs, the_system_level.matrix_sys, the_system_level.filter_sys);
    out.status = int(result); out.iters = solver->get_num_iter(); out.def_init = solver->get_def_initial(); out.def_final = solver->get_def_final();
    if(reference)
    {
      // the same solve on a right-hand side perturbed by a few ulps: how much does this iteration amplify rounding noise?
      GlobalSystemVector rhs2 = vec_rhs.clone(LAFEM::CloneMode::Deep);
      GlobalSystemVector sol2 = vec_sol.clone(LAFEM::CloneMode::Deep);
      sol2.format();
      the_system_level.filter_sys.filter_sol(sol2);
      for(Index d = 0; d < nd; ++d)
      {
        const double sgn = (((unsigned long long)(out.keys[d] * 2654435761ll + 4242) >> 7) & 1ull) ? 1.0 : -1.0;
        Tiny::Vector<double, 2> v = rhs2.local()(d); v[0] *= (1.0 + sgn * 8.9e-16); v[1] *= (1.0 - sgn * 8.9e-16); rhs2.local()(d, v);
      }
      Solver::solve(*solver, sol2, rhs2, the_system_level.matrix_sys, the_system_level.filter_sys);
      for(Index d = 0; d < nd; ++d) for(int c = 0; c < 2; ++c) out.noise_sol = std::max(out.noise_sol, std::abs(sol2.local()(d)[c] - vec_sol.local()(d)[c]));
      out.noise_iters = std::labs(long(solver->get_num_iter()) - long(out.iters));
    }
    solver->done();
    mgh->done();
    for(Index d = 0; d < nd; ++d) for(int c = 0; c < 2; ++c) out.sol.push_back(vec_sol.local()(d)[c]);
    comm.barrier();
  }

  bool close(double a, double b, double rel, double scale) { return std::abs(a - b) <= rel * scale; }

  void verify()
  {
    const std::vector<RankOut>& A = SH->a; const RankOut& B = SH->b[0];
    for(const RankOut& r : A)
    {
      if(r.status != A[0].status || r.iters != A[0].iters || r.def_init != A[0].def_init || r.def_final != A[0].def_final) sim::fail("SOLVER_STATUS_DIFFERS", "ranks disagree on status/iterations/defects of one solve");
      if(r.dot != A[0].dot || r.norm2 != A[0].norm2) sim::fail("GLOBAL_SCALAR_DIFFERS_ACROSS_RANKS", "a global reduction delivered different bits to different ranks");
    }
    std::map<long long, size_t> bidx;
    for(size_t i = 0; i < B.keys.size(); ++i) bidx[B.keys[i]] = i;
    if(!close(A[0].dot, B.dot, 1e-12, std::abs(B.dot) + 1e3) || !close(A[0].norm2, B.norm2, 1e-12, B.norm2 + 1)) sim::fail("DOT", "global dot/norm2 of a blocked vector differs from the one-process value");
    {
      std::map<int, const LevelOut*> bl;
      for(const LevelOut& l : B.levels) bl[l.level] = &l;
      auto cmp = [&](const LevelOut& l, const std::vector<double>& mine, const std::vector<double> LevelOut::* ref, const char* cls, const char* what)
      {
        if(mine.empty()) return;
        auto it = bl.find(l.level);
        if(it == bl.end()) sim::fail("INFRA", "the one-process run lacks a level of the distributed run");
        const LevelOut& b = *it->second;
        const std::vector<double>& rv = b.*ref;
        if(rv.empty()) sim::fail("INFRA", std::string("the one-process run has no ") + what + " on level " + std::to_string(l.level));
        std::map<long long, size_t> bi; for(size_t d = 0; d < b.keys.size(); ++d) bi[b.keys[d]] = d;
        double sc = 1e-300; for(double x : rv) sc = std::max(sc, std::abs(x));
        for(size_t d = 0; d < l.keys.size(); ++d)
        {
          auto f = bi.find(l.keys[d]);
          if(f == bi.end()) sim::fail("DOF_KEY_UNKNOWN", "a DOF of a coarser level is unknown to the one-process run");
          for(size_t c = 0; c < 2; ++c)
          {
            ++CNT.transfer;
            if(!(std::abs(mine[2 * d + c] - rv[2 * f->second + c]) <= 1e-11 * sc))
              sim::fail(cls, std::string(what) + " of a blocked vector onto layer " + std::to_string(l.layer) + " level " + std::to_string(l.level) + " on layer rank " + std::to_string(l.layer_rank) + " of " + std::to_string(l.layer_size) + ": " + std::to_string(mine[2 * d + c]) + ", one-process value " + std::to_string(rv[2 * f->second + c]));
          }
        }
      };
      for(const RankOut& r : A) for(const LevelOut& l : r.levels)
      {
        cmp(l, l.prol, &LevelOut::prol, "TRANSFER_PROL", "prolongation");
        cmp(l, l.rest, &LevelOut::rest, "TRANSFER_REST", "restriction");
      }
    }
    std::map<std::pair<int, int>, std::vector<const LevelOut*>> groups;
    for(const RankOut& r : A) for(const LevelOut& l : r.levels) groups[{l.layer, l.level}].push_back(&l);
    for(const auto& g : groups)
    {
      const std::string where = "layer " + std::to_string(g.first.first) + " level " + std::to_string(g.first.second);
      std::map<long long, std::vector<int>> sharing;
      for(const LevelOut* l : g.second) for(long long k : l->keys) sharing[k].push_back(l->layer_rank);
      for(const LevelOut* l : g.second) for(size_t d = 0; d < l->keys.size(); ++d)
      {
        const std::vector<int>& S = sharing[l->keys[d]];
        for(int c = 0; c < 2; ++c)
        {
          double e0 = 0; for(int q : S) e0 += h_int(l->keys[d], q, c);
          ++CNT.sync0; if(S.size() > 1) ++CNT.shared;
          if(l->s0[2 * d + size_t(c)] != e0) sim::fail("SYNC0", where + ": blocked sync_0 component " + std::to_string(c) + " holds " + std::to_string(l->s0[2 * d + size_t(c)]) + ", exact sum is " + std::to_string(e0));
          double e1 = g_val(l->keys[d], 3, c);
          if(!close(l->s1[2 * d + size_t(c)], e1, 4e-16 * double(S.size() + 1), std::abs(e1) + 1)) sim::fail("SYNC1", where + ": blocked sync_1 changed a consistent value");
          if(!close(l->freqs[2 * d + size_t(c)], 1.0 / double(S.size()), 1e-15, 1.0)) sim::fail("GATE_FREQS", where + ": wrong frequency in a blocked gate");
        }
      }
    }
    double s_ax = 1e-300, s_sol = 1e-300;
    for(double x : B.ax) s_ax = std::max(s_ax, std::abs(x));
    for(double x : B.sol) s_sol = std::max(s_sol, std::abs(x));
    for(const RankOut& r : A) for(size_t d = 0; d < r.keys.size(); ++d)
    {
      auto it = bidx.find(r.keys[d]);
      if(it == bidx.end()) sim::fail("DOF_KEY_UNKNOWN", "a DOF of the distributed run does not exist in the one-process run");
      for(size_t c = 0; c < 2; ++c)
      {
        ++CNT.matvec;
        if(!close(r.ax[2 * d + c], B.ax[2 * it->second + c], 1e-12, s_ax)) sim::fail("MATVEC", "blocked A*x differs from the one-process product");
        if(!(std::abs(r.sol[2 * d + c] - B.sol[2 * it->second + c]) <= 1e-7 * s_sol + 1e3 * B.noise_sol)) sim::fail("SOLUTION", "blocked discrete solution differs from the one-process solution");
      }
    }
    {
      // slip filter: reference normals by key; every rank that holds a slip DOF must list it with the same unit normal
      std::map<long long, std::pair<double, double>> ref;
      for(const auto& e : B.slip) ref[e.first] = e.second;
      if(ref.size() != B.slip.size()) sim::fail("INFRA", "duplicate keys in the reference slip filter");
      for(const RankOut& r : A)
      {
        std::set<long long> mine(r.keys.begin(), r.keys.end()), listed;
        for(const auto& e : r.slip)
        {
          listed.insert(e.first);
          auto it = ref.find(e.first);
          if(it == ref.end()) sim::fail("SLIP_FILTER", "a rank lists a slip DOF that is none in the one-process filter");
          if(std::abs(e.second.first - it->second.first) > 1e-12 || std::abs(e.second.second - it->second.second) > 1e-12)
            sim::fail("SLIP_FILTER", "synchronised slip normal (" + std::to_string(e.second.first) + ", " + std::to_string(e.second.second) + ") differs from the one-process normal (" + std::to_string(it->second.first) + ", " + std::to_string(it->second.second) + ")");
        }
        // the distributed filtered vector must equal the one-process filtered vector at every DOF of every rank
        for(size_t d = 0; d < r.keys.size(); ++d)
        {
          auto it = bidx.find(r.keys[d]);
          if(it == bidx.end()) continue;
          for(size_t c = 0; c < 2; ++c)
            if(std::abs(r.slip_filtered[2 * d + c] - B.slip_filtered[2 * it->second + c]) > 1e-10)
              sim::fail("SLIP_FILTER", "slip-filtered vector differs from the one-process result at a DOF: " + std::to_string(r.slip_filtered[2 * d + c]) + " vs " + std::to_string(B.slip_filtered[2 * it->second + c]) +
                (mine.count(r.keys[d]) && ref.count(r.keys[d]) && !listed.count(r.keys[d]) ? " (the rank holds this DOF of the slip boundary, but its synchronised filter does not list it)" : ""));
        }
      }
    }
    CNT.iters += A[0].iters;
    // the stopping test is a threshold: a run that converges in its last permitted iteration in one world may need one more
    // in the other (success vs max_iter); every other disagreement of the status is a violation
    {
      const long tol_it = 1 + 2 * B.noise_iters;
      const bool boundary = ((A[0].status == int(Solver::Status::success) && B.status == int(Solver::Status::max_iter)) || (A[0].status == int(Solver::Status::max_iter) && B.status == int(Solver::Status::success)))
        && std::labs(long(A[0].iters) - long(B.iters)) <= tol_it;
      if(A[0].status != B.status && !boundary) sim::fail("SOLVER_STATUS", "solver status " + std::to_string(A[0].status) + " (" + std::to_string(A[0].iters) + " iterations) differs from the one-process status " + std::to_string(B.status) + " (" + std::to_string(B.iters) + " iterations)");
      if(A[0].status != B.status) sim::probe("converged_in_the_last_permitted_iteration_in_one_world_only");
    }
    long di = long(A[0].iters) - long(B.iters);
    const long di_tol = 1 + 2 * B.noise_iters;
    if(di < -di_tol || di > di_tol) sim::fail("ITERATIONS", "iteration count " + std::to_string(A[0].iters) + " differs from the one-process count " + std::to_string(B.iters));
    if(!close(A[0].def_init, B.def_init, 1e-10, B.def_init)) sim::fail("DEFECT_INIT", "initial defect differs from the one-process run");
  }
}

HarnessInfo harness_info() { return {"C13", "c13_blocked", 60000000}; }
void harness_process_init(int argc, char** argv) { Runtime::initialize(argc, argv); }

std::string harness_run()
{
  sim::pthread_model_reset();
  sim::clock_reset();
  wc::WorldCfg w = sim::thorough() ? wc::draw_cfg(4, 2, false) : wc::draw_cfg(3, 2, false);
  if(w.mesh == 1 || w.mesh == 4) { w.mesh = 0; w.mesh_file = "unit-square-quad.xml"; }   // quadrilateral meshes only in this harness
  // every fourth run on a mesh with boundary facets of different sizes along a curved boundary (flow around a cylinder): at a
  // slip DOF shared by two patches the two facet normals then differ in direction *and* length - on the unit square they are
  // parallel, on a uniformly meshed circle equally long, and a weighting mistake of the synchronisation stays invisible
  if(sim::cfg_int("nonuniform_boundary", 0, 3) == 0)
  {
    static const char* nu[3] = {"z-pipe-1-quad.xml", "nozzle-1-quad.xml", "flowbench_c2d_01_quad_32.xml"};
    w.mesh = 9; w.mesh_file = nu[sim::cfg_int("nonuniform_mesh", 0, 2)];
    sim::probe("mesh_with_nonuniform_curved_boundary");
  }
  if(w.parti == 2) w.parti = 1;
  CNT = Counters();
  Shared sh; SH = &sh;
  sh.a.resize(size_t(w.n)); sh.b.resize(1);
  simmpi::world_begin(w.n, [w](int r) { rank_body(r, w, false, 0, 0, SH->a); });
  sim::run_go();
  simmpi::world_end();
  const int cmax = sh.a[0].cmax, cmin = sh.a[0].cmin;
  simmpi::world_begin(1, [w, cmax, cmin](int r) { rank_body(r, w, true, cmax, cmin, SH->b); });
  sim::run_go();
  simmpi::world_end();
  verify();
  SH = nullptr;
  return "{\"sync0_dofs\":" + std::to_string(CNT.sync0) + ",\"shared_dofs\":" + std::to_string(CNT.shared) + ",\"matvec_entries\":" + std::to_string(CNT.matvec) + ",\"solver_iterations\":" + std::to_string(CNT.iters) + ",\"transfer_entries\":" + std::to_string(CNT.transfer) + "}";
}

int main(int argc, char** argv) { return harness_main(argc, argv); }
