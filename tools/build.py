#!/usr/bin/env python3
"""Builds the simulator, SimMPI, SimFS and the harness binaries from /repo's *current working tree*.

Objects are cached by the hash of the preprocessed translation unit (g++ -E expands every header of
/repo) plus the compile flags, so an edit anywhere under /repo that reaches a harness is recompiled
and nothing else is (DESIGN.md 2.8).  Everything is offline; output goes to /verif/build.
"""
import hashlib, json, os, re, subprocess, sys, time
from concurrent.futures import ThreadPoolExecutor

VERIF = os.path.dirname(os.path.dirname(os.path.abspath(__file__)))
REPO = os.environ.get("VERIF_REPO", "/repo")
BUILD = os.path.join(VERIF, "build")
# binaries of a scratch tree (VERIF_REPO) can go to their own directory so that two trees can be checked at the same time;
# the object cache is keyed by content and is shared
BINDIR = "bin" + (("-" + os.environ["VERIF_BIN_TAG"]) if os.environ.get("VERIF_BIN_TAG") else "")
CXX = os.environ.get("VERIF_CXX", "g++")

SAN = ["-O1", "-g1", "-fsanitize=address,undefined",
       "-fno-sanitize=alignment,vptr,enum,bool,null,return,object-size",
       "-fno-omit-frame-pointer"]
FAST = ["-O1", "-g1"]
COMMON = ["-std=c++17", "-pthread", "-Wno-deprecated-declarations", "-w"]

KERNEL_SRC = [
    "kernel/util/dist.cpp", "kernel/util/dist_file_io.cpp", "kernel/util/kahan_summation.cpp",
    "kernel/util/memory_pool.cpp", "kernel/util/property_map.cpp", "kernel/util/statistics.cpp",
    "kernel/util/xml_scanner.cpp", "kernel/adjacency/coloring.cpp", "kernel/adjacency/cuthill_mckee.cpp",
    "kernel/adjacency/graph.cpp", "kernel/adjacency/permutation.cpp", "kernel/backend.cpp", "kernel/runtime.cpp",
    "kernel/cubature/empty_cubature.cpp",
]
SIM_SRC = ["sim/sim.cpp", "sim/interpose.cpp"]
GUARD_SRC = ["sim/guard_alloc.cpp"]   # "guard" flavour only: no sanitizers, guard-zone operator new/delete
# "race" flavour: harness and library are compiled with the thread-sanitizer instrumentation, the runtime is this file
# (a happens-before detector on the simulator's vector clocks) instead of libtsan; simulator sources stay uninstrumented
RACE_SRC = ["sim/race_rt.cpp"]
RACE_INSTR = ["-fsanitize=thread"]
RACE_LINK = ["-Wl,--wrap=free", "-Wl,--wrap=__cxa_guard_acquire", "-Wl,--wrap=__cxa_guard_release"]
SIMMPI_SRC = ["simmpi/simmpi.cpp"]

# name -> (config, [harness sources], uses_simmpi)
TARGETS = {
    "c17_fence":  ("nompi", ["harness/c17_fence.cpp"], False),
    "c17_asm":    ("nompi", ["harness/c17_asm.cpp"], False),
    "c17_iso":    ("nompi", ["harness/c17_iso.cpp"], False),
    "simmpi_selftest": ("mpi", ["harness/simmpi_selftest.cpp"], True),
    "race_selftest": ("nompi", ["harness/race_selftest.cpp"], False),
    "c12_domain": ("mpi", ["harness/c12_domain.cpp"], True),
    "c13_scalar": ("mpi", ["harness/c13_scalar.cpp"], True),
    "c13_app":    ("mpi", ["harness/c13_app.cpp"], True),
    "c13_app_neumann": ("mpi", ["harness/c13_app_neumann.cpp"], True),
    "c13_q2":     ("mpi", ["harness/c13_q2.cpp"], True),
    "c13_dg":     ("mpi", ["harness/c13_dg.cpp"], True),
    "c13_blocked": ("mpi", ["harness/c13_blocked.cpp"], True),
    "c13_stokes": ("mpi", ["harness/c13_stokes.cpp"], True),
    "c13_tm":     ("mpi_tm", ["harness/c13_tm.cpp"], True),
    "c13_stokes_crrt": ("mpi", ["harness/c13_stokes_crrt.cpp"], True),
    "c13_stokes_mg": ("mpi", ["harness/c13_stokes_mg.cpp"], True),
    "c05_streams": ("nompi", ["harness/c05_streams.cpp"], False),
    "c05_checkpoint": ("mpi", ["harness/c05_checkpoint.cpp"], True),
    "c05_meta": ("nompi", ["harness/c05_meta.cpp"], False),
    "c11_mesh":   ("nompi", ["harness/c11_mesh.cpp"], False),
    "c11_pmap":   ("nompi", ["harness/c11_pmap.cpp"], False),
    "c11_dist":   ("mpi", ["harness/c11_dist.cpp"], True),
}
GUARD_TARGETS = ["c11_mesh.guard", "c11_pmap.guard", "c05_streams.guard"]
PROPERTY_TARGETS = {
    "C17": ["c17_fence", "c17_asm", "c17_asm.race", "c17_iso", "c17_iso.race"],
    "C12": ["c12_domain"],
    "C13": ["c13_scalar", "c13_app", "c13_app_neumann", "c13_q2", "c13_dg", "c13_blocked", "c13_stokes", "c13_tm", "c13_stokes_crrt", "c13_stokes_mg", "c13_tm.race"],
    "C05": ["c05_streams", "c05_checkpoint", "c05_streams.guard", "c05_meta"],
    "C11": ["c11_mesh", "c11_pmap", "c11_mesh.guard", "c11_pmap.guard", "c11_dist"],
    "SIMMPI": ["simmpi_selftest"],
    "RACE": ["race_selftest.race", "race_selftest"],
}


def log(*a):
    print("[build]", *a, file=sys.stderr, flush=True)


def gen_config(kind):
    """feat_config.hpp generated from /repo/feat_config.hpp.in: MPI per harness, OpenMP off."""
    d = os.path.join(BUILD, "cfg_" + kind)
    os.makedirs(d, exist_ok=True)
    enabled = set()
    if kind in ("mpi", "mpi_tm"):
        enabled.add("FEAT_HAVE_MPI")
    if kind == "mpi_tm":
        # thread-multiple configuration: asynchronous scalar reductions run their MPI calls on a helper thread
        enabled.add("FEAT_MPI_THREAD_MULTIPLE")
    values = {"FEAT_SOURCE_DIR": REPO, "FEAT_BINARY_DIR": BUILD, "CMAKE_CXX_COMPILER_ID": "GNU",
              "CMAKE_CXX_COMPILER": CXX, "FEAT_HOSTNAME": "sim", "CMAKE_VERSION": "0", "CMAKE_MPI_VERSION": "3.1"}
    out = []
    for line in open(os.path.join(REPO, "feat_config.hpp.in")):
        m = re.match(r"#cmakedefine\s+(\w+)", line)
        if m:
            out.append("#define %s 1\n" % m.group(1) if m.group(1) in enabled else "/* #undef %s */\n" % m.group(1))
            continue
        line = re.sub(r"\$\{(\w+)\}", lambda mm: values.get(mm.group(1), ""), line)
        out.append(line)
    txt = "".join(out)
    p = os.path.join(d, "feat_config.hpp")
    if not os.path.exists(p) or open(p).read() != txt:
        open(p, "w").write(txt)
    return d


def flags_for(kind, flavour, simmpi):
    inc = ["-I" + gen_config(kind), "-I" + VERIF]
    if simmpi or kind in ("mpi", "mpi_tm"):
        inc.append("-I" + os.path.join(VERIF, "simmpi", "include"))
    inc.append("-I" + REPO)
    extra = ['-DSIM_FLAVOUR_GUARD'] if flavour == 'guard' else []
    if flavour == "race":
        extra.append("-DSIM_FLAVOUR_RACE")
    if kind == "mpi_tm":
        extra.append("-DSIM_MAX_TASKS=4096")   # one helper thread per scalar reduction and rank
    return COMMON + (SAN if flavour == "san" else FAST) + extra + inc


def compile_obj(src, flags):
    """returns (objpath, rebuilt, seconds)"""
    t0 = time.time()
    pre = subprocess.run([CXX] + flags + ["-E", src], stdout=subprocess.PIPE, stderr=subprocess.PIPE)
    if pre.returncode != 0:
        raise RuntimeError("preprocess failed: %s\n%s" % (src, pre.stderr.decode()[-4000:]))
    h = hashlib.sha256()
    h.update(" ".join(flags).encode())
    h.update(pre.stdout)
    key = h.hexdigest()[:24]
    objdir = os.path.join(BUILD, "obj")
    os.makedirs(objdir, exist_ok=True)
    obj = os.path.join(objdir, os.path.basename(src).replace(".cpp", "") + "-" + key + ".o")
    if os.path.exists(obj):
        return obj, False, time.time() - t0
    tmp = obj + ".tmp%d" % os.getpid()
    r = subprocess.run([CXX] + flags + ["-c", src, "-o", tmp], stdout=subprocess.PIPE, stderr=subprocess.PIPE)
    if r.returncode != 0:
        raise RuntimeError("compile failed: %s\n%s" % (src, r.stderr.decode()[-8000:]))
    os.replace(tmp, obj)
    # drop stale objects of the same source
    base = os.path.basename(src).replace(".cpp", "") + "-"
    for f in os.listdir(objdir):
        if f.startswith(base) and f.endswith(".o") and os.path.join(objdir, f) != obj:
            # keep objects of the other flavour/config: they have different keys but the same base; keep newest 6
            pass
    return obj, True, time.time() - t0


def build(targets, flavours=("san",), jobs=16):
    t0 = time.time()
    os.makedirs(os.path.join(BUILD, BINDIR), exist_ok=True)
    work = {}   # (src, tuple(flags)) -> future
    plan = []
    # a target may be given as "<name>.<flavour>" (e.g. c11_mesh.guard); plain names use the flavours argument
    pairs = []
    for t in targets:
        if "." in t:
            pairs.append((t.split(".")[0], t.split(".")[1]))
        else:
            pairs += [(t, fl) for fl in flavours]
    for t, fl in pairs:
        if True:
            kind, hsrc, simmpi = TARGETS[t]
            missing = [s for s in hsrc if not os.path.exists(os.path.join(VERIF, s))]
            if missing:
                log("skip", t, "(missing", missing, ")")
                continue
            flags = flags_for(kind, fl, simmpi)
            srcs = [os.path.join(VERIF, s) for s in SIM_SRC + hsrc] + [os.path.join(REPO, s) for s in KERNEL_SRC]
            if simmpi:
                srcs += [os.path.join(VERIF, s) for s in SIMMPI_SRC]
            if fl == "guard":
                srcs += [os.path.join(VERIF, s) for s in GUARD_SRC]
            if fl == "race":
                srcs += [os.path.join(VERIF, s) for s in RACE_SRC]
            plan.append((t, fl, flags, srcs))
    rebuilt = 0
    with ThreadPoolExecutor(max_workers=jobs) as ex:
        def src_flags(fl, flags, s):
            if fl == "race" and not s.startswith(os.path.join(VERIF, "sim") + os.sep) and not s.startswith(os.path.join(VERIF, "simmpi") + os.sep):
                return flags + RACE_INSTR
            return flags
        for t, fl, flags, srcs in plan:
            for s in srcs:
                k = (s, tuple(src_flags(fl, flags, s)))
                if k not in work:
                    work[k] = ex.submit(compile_obj, s, list(k[1]))
        for t, fl, flags, srcs in plan:
            objs = []
            for s in srcs:
                obj, rb, dt = work[(s, tuple(src_flags(fl, flags, s)))].result()
                objs.append(obj)
                if rb:
                    rebuilt += 1
            binp = os.path.join(BUILD, BINDIR, t + ("" if fl == "san" else "." + fl))
            stamp = binp + ".objs"
            sig = "\n".join(objs)
            if os.path.exists(binp) and os.path.exists(stamp) and open(stamp).read() == sig:
                continue
            link = [CXX] + (SAN if fl == "san" else FAST) + ["-rdynamic", "-pthread"] + (RACE_LINK if fl == "race" else []) + objs + ["-o", binp + ".tmp", "-ldl"]
            r = subprocess.run(link, stdout=subprocess.PIPE, stderr=subprocess.PIPE)
            if r.returncode != 0:
                raise RuntimeError("link failed: %s\n%s" % (t, r.stderr.decode()[-8000:]))
            os.replace(binp + ".tmp", binp)
            open(stamp, "w").write(sig)
    # garbage-collect objects not referenced by any stamp (keeps disk bounded)
    keep = set()
    for bdn in os.listdir(BUILD):
        bd = os.path.join(BUILD, bdn)
        if not (bdn == "bin" or bdn.startswith("bin-")) or not os.path.isdir(bd):
            continue
        for f in os.listdir(bd):
            if f.endswith(".objs"):
                keep.update(open(os.path.join(bd, f)).read().split("\n"))
    od = os.path.join(BUILD, "obj")
    if os.path.isdir(od):
        for f in os.listdir(od):
            p = os.path.join(od, f)
            if p not in keep and time.time() - os.path.getmtime(p) > 6 * 3600:
                try:
                    os.remove(p)
                except OSError:
                    pass
    log("built %d target(s), %d object(s) recompiled, %.1fs" % (len(plan), rebuilt, time.time() - t0))
    return rebuilt, time.time() - t0


def main():
    args = sys.argv[1:]
    flavours = ["san"]
    if "--fast" in args:
        flavours = ["san", "fast"]
    if "--all" in args:
        # everything a registered check or self-test runs: all harnesses in the sanitizer flavour plus the guard and race ones
        targets = list(TARGETS) + GUARD_TARGETS
        for ts in PROPERTY_TARGETS.values():
            targets += [t for t in ts if "." in t and t not in targets]
    else:
        targets = []
        for a in args:
            if a in PROPERTY_TARGETS:
                targets += PROPERTY_TARGETS[a]
            elif a in TARGETS or a.split(".")[0] in TARGETS:
                targets.append(a)
    if not targets:
        print("usage: build.py --all | <property id> | <target> [--fast]")
        return 2
    try:
        build(targets, flavours)
    except RuntimeError as e:
        print(str(e), file=sys.stderr)
        return 2
    return 0


if __name__ == "__main__":
    sys.exit(main())
