#!/usr/bin/env python3
"""Refreshes seeded/<id>/meta.json: my confirmation result (last CONFIRM_RESULT line of /tmp/confirm_<id>.log, if that log
exists) and the verdict of the registered check for the change (entry of build/sensitivity.json, if present)."""
import json, os
VERIF = os.path.dirname(os.path.dirname(os.path.abspath(__file__)))
sens = {}
try:
    sens = {e["id"]: e for e in json.load(open(os.path.join(VERIF, "build", "sensitivity.json")))}
except Exception:
    pass
n = 0
for d in sorted(os.listdir(os.path.join(VERIF, "seeded"))):
    mp = os.path.join(VERIF, "seeded", d, "meta.json")
    if not os.path.exists(mp):
        continue
    m = json.load(open(mp))
    log = "/tmp/confirm_%s.log" % d
    if os.path.exists(log):
        conf = None
        for l in open(log, errors="replace"):
            if l.startswith("CONFIRM_RESULT"):
                conf = l.strip()
        if conf:
            m.setdefault("confirmed_by_me", {})["result"] = conf
    if d in sens:
        e = sens[d]
        m["check_result"] = {k: e.get(k) for k in ("caught", "classes", "harness", "first_run", "seconds", "exit", "checked_at")}
    json.dump(m, open(mp, "w"), indent=1)
    n += 1
    print(d, (m.get("confirmed_by_me") or {}).get("result", "")[:90], "|", (m.get("check_result") or {}).get("caught"), (m.get("check_result") or {}).get("classes"))
print("refreshed", n)
