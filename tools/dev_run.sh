#!/bin/sh
# dev helper: run one harness over a seed range on P processes and summarise
# usage: dev_run.sh <harness> <seed> <from> <count> [procs]
H=$1; S=$2; F=$3; C=$4; P=${5:-8}
D=/tmp/devrun-$H; rm -rf $D; mkdir -p $D
per=$(( (C + P - 1) / P ))
i=0
while [ $i -lt $P ]; do
  f=$(( F + i * per ))
  ( SIM_WATCHDOG_S=${SIM_WATCHDOG_S:-60} /verif/build/bin${VERIF_BIN_TAG:+-$VERIF_BIN_TAG}/$H --seed $S --from $f --count $per --trace-dir $D --cpu $i > $D/out$i.txt 2> $D/err$i.txt ) &
  i=$(( i + 1 ))
done
wait
cat $D/out*.txt | python3 -c "
import sys,json,collections
c=collections.Counter(); bad=[]; pr=collections.Counter(); fl=collections.Counter(); ex=collections.Counter(); steps=0
for l in sys.stdin:
    try: j=json.loads(l)
    except Exception: continue
    if 'infra' in j: print(j); continue
    r=j['result']; c[r['cls']]+=1; steps+=r['steps']
    for k,v in r['probes'].items(): pr[k]+=v
    for k,v in r['faults'].items(): fl[k]+=v
    e=j.get('extra') or {}
    for k,v in e.items():
        if isinstance(v,(int,float)): ex[k]+=v
    if r['cls']!='OK': bad.append(j)
print(dict(c), 'steps', steps); print('probes', dict(pr)); print('faults', dict(fl)); print('extra', dict(ex))
for j in bad[:6]: print(json.dumps(j)[:1400])
"
