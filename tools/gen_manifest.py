#!/usr/bin/env python3
"""Generates /verif/MANIFEST.json from the table below (single source of truth)."""
import json, os
HERE = os.path.dirname(os.path.dirname(os.path.abspath(__file__)))

NA = {
 "C01": "pure function of (container, x, y, alpha): no scheduler, clock, I/O, fault or second party to simulate; the only concurrency in these kernels is OpenMP, whose runtime a simulator cannot own (DESIGN.md 6)",
 "C02": "conversion/clone/transpose/permute are pure in-memory transformations; 'chains of operations' are sequential inputs, not schedules (DESIGN.md 6)",
 "C03": "matrix algebra: pure functions of operands and pattern; nothing for a simulator to schedule or fault (DESIGN.md 6)",
 "C04": "vector operations: pure; operand aliasing is an input shape, not an interleaving (DESIGN.md 6)",
 "C06": "filters are pure functions of (filter data, vector/matrix); the global mean filter's single allreduce runs inside C13 worlds but the per-entry claims contain no schedule (DESIGN.md 6)",
 "C07": "iterative solvers are deterministic functions of (A, b, x0, settings, call sequence): no timers, retries or cancellation; cross-rank consistency of status/defects is checked under C13 without claiming C07 (DESIGN.md 6)",
 "C08": "preconditioners: linear-operator identities on in-memory data (DESIGN.md 6)",
 "C09": "multigrid visit order is a deterministic recursion over levels; nothing for a scheduler to choose (multi-rank hierarchies run under C13) (DESIGN.md 6)",
 "C10": "mesh refinement is a pure combinatorial function of the input mesh (DESIGN.md 6)",
 "C14": "cubature rules are static tables (DESIGN.md 6)",
 "C15": "finite-element bases are pure functions of (cell geometry, reference point) (DESIGN.md 6)",
 "C16": "assembly equals integrals: pure function of (mesh, space, operator); the threaded route is C17 (DESIGN.md 6)",
 "C18": "grid transfer is a pure function of (coarse mesh, fine mesh, space); the muxed/global transfer runs under C13 (DESIGN.md 6)",
 "C19": "graph/permutation/colouring tools are pure functions on small integer structures (DESIGN.md 6)",
 "C20": "process-global, single-threaded reference-counting pool; allocation failure is an unconditional abort, so there is no fault outcome to specify; lifetime histories are sequential op sequences (stateful input generation), not schedules (DESIGN.md 6)",
}
PENDING = {}  # id -> reason while a claimed check is still under construction

CHECKS = {}   # id -> dict(text, note, technique, design_ref); filled in as checks are registered

def load_checks():
    p = os.path.join(HERE, "tools", "checks.json")
    if os.path.exists(p):
        return json.load(open(p))
    return {}

def main():
    checks = load_checks()
    m = {
      "version": 1,
      "setup_cmd": "python3 tools/build.py --all",
      "hooks": {
        "guard": "FEAT3_VERIF_SIM",
        "enable": "no hook exists in /repo: both seams (pthread, <mpi.h>) are reached by link-time interposition and a shim include directory (DESIGN.md 3.4); the guard name is reserved",
        "baseline_off_cmd": "ctest --test-dir /repo/_build -j8 --timeout 900",
        "source_commits": [],
        "add_only": True
      },
      "engines": [
        {"name": "feat3-dst", "path": "sim/ simmpi/ simfs/ harness/ tools/", "serves_properties": sorted(checks.keys()),
         "kind_free_text": "deterministic simulation with fault injection: real pthreads parked/released by a seeded baton scheduler; link-time interposed pthread primitives and clock; SimMPI shim <mpi.h> (threads-as-ranks) with seeded legal MPI nondeterminism; SimFS/SimStreamBuf with storage fault ops; decision-trace replay and minimisation"}
      ],
      "checks": [],
      "notes": "See DESIGN.md (section 13: as built). KNOWN_FINDINGS.txt: 'fixed:' lines = genuine defects repaired by 'fix:' commits in /repo (suppress nothing), 'finding:' lines = recorded genuine defects (a check prints KNOWN-FINDING for them and exits 0; currently one, C13, pinned to a replay file). seeded/ = property-breaking changes from independent sub-agents with confirmation and verdicts, benign/ = property-preserving changes (no-false-alarm self-test), mutants/ = own mutant corpus; tools/selftest_{determinism,sensitivity,benign}.py run them.",
      "not_applicable": []
    }
    for pid in sorted(checks):
        c = checks[pid]
        m["checks"].append({
          "property_id": pid,
          "quick_cmd": "python3 tools/check.py %s --tier quick" % pid,
          "thorough_cmd": "python3 tools/check.py %s --tier thorough" % pid,
          "evidence_file": "evidence/%s.json" % pid,
          "replay_cmd_template": "python3 tools/check.py %s --replay {path}" % pid,
          "engine": "feat3-dst",
          "level_claimed": {"category": "exploration", "text": c["text"], "design_ref": c["design_ref"]},
          "level_note": c["note"],
          "technique": c["technique"],
        })
    allp = [json.loads(l)["id"] for l in open(os.path.join(HERE, "properties.jsonl"))]
    for pid in allp:
        if pid in checks: continue
        if pid in NA: m["not_applicable"].append({"property_id": pid, "reason": NA[pid]})
        else: m["not_applicable"].append({"property_id": pid, "reason": "planned as a simulation target (DESIGN.md 5) but its check is not yet built/registered; nothing is claimed for it at this commit"})
    json.dump(m, open(os.path.join(HERE, "MANIFEST.json"), "w"), indent=1)
    print("MANIFEST.json written: %d checks, %d not_applicable" % (len(m["checks"]), len(m["not_applicable"])))
main()
