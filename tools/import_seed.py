#!/usr/bin/env python3
"""Imports a seeded change delivered by a sub-agent into /verif/seeded/<id>/.

usage: import_seed.py <id> <property> <srcdir> [--caught "<text>"] [--needs "<text>"]

Copies patch.diff, the demonstration and helper files, keeps the agent's own meta.json as agent_meta.json and writes
meta.json with my confirmation result (last CONFIRM_RESULT line of /tmp/confirm_<id>.log, if that run exists) and the
verdict of the registered check (build/sensitivity.json entry, if present, else the --caught text).
"""
import json, os, re, shutil, sys

VERIF = os.path.dirname(os.path.dirname(os.path.abspath(__file__)))


def main():
    a = sys.argv[1:]
    sid, prop, src = a[0], a[1], a[2]
    opts = dict(zip(a[3::2], a[4::2]))
    dst = os.path.join(VERIF, "seeded", sid)
    os.makedirs(dst, exist_ok=True)
    for f in os.listdir(src):
        p = os.path.join(src, f)
        if os.path.isdir(p):
            # small helper directories of the demonstration (e.g. cfg/feat_config.hpp); build output is not kept
            if f.startswith("_") or f in ("build", "obj") or sum(os.path.getsize(os.path.join(r, x)) for r, _, fs in os.walk(p) for x in fs) > 400000:
                continue
            shutil.copytree(p, os.path.join(dst, f), dirs_exist_ok=True)
            continue
        if os.path.getsize(p) > 400000:
            continue
        shutil.copy(p, os.path.join(dst, "agent_meta.json" if f == "meta.json" else f))
    am = {}
    try:
        am = json.load(open(os.path.join(dst, "agent_meta.json")))
    except Exception:
        pass
    old = {}
    if os.path.exists(os.path.join(dst, "meta.json")):
        try:
            old = json.load(open(os.path.join(dst, "meta.json")))
        except Exception:
            pass
    conf = None
    log = "/tmp/confirm_%s.log" % sid
    if os.path.exists(log):
        for l in open(log, errors="replace"):
            if l.startswith("CONFIRM_RESULT"):
                conf = l.strip()
    files = sorted(set(re.findall(r"^\+\+\+ b/(\S+)", open(os.path.join(dst, "patch.diff")).read(), re.M)))
    summary = am.get("summary") or am.get("idea") or am.get("description") or old.get("summary") or ""
    needs = opts.get("--needs") or am.get("what_it_needs_to_manifest") or am.get("needs") or am.get("trigger") or old.get("what_it_needs_to_manifest") or ""
    meta = {
        "id": sid, "property": prop,
        "origin": "independent sub-agent that saw only the property text, the list of ideas already taken and a scratch worktree of /repo",
        "summary": summary if isinstance(summary, str) else json.dumps(summary),
        "what_it_needs_to_manifest": needs if isinstance(needs, str) else json.dumps(needs),
        "files_changed": files,
        "confirmed_by_me": {
            "procedure": "tools/confirm_seeded.sh in a scratch worktree under /tmp (baseline configuration: RelWithDebInfo, OpenMP on, no MPI): git apply, ninja, ctest (121 tests; tests that fail in the loaded parallel run are repeated serially), demonstration with the change, demonstration on the unchanged tree",
            "result": conf or (old.get("confirmed_by_me") or {}).get("result") or "pending",
        },
        "caught_by": opts.get("--caught") or old.get("caught_by") or "",
    }
    sens = os.path.join(VERIF, "build", "sensitivity.json")
    if os.path.exists(sens):
        for e in json.load(open(sens)):
            if e.get("id") == sid:
                meta["check_result"] = {k: e.get(k) for k in ("caught", "classes", "harness", "first_run", "seconds", "exit")}
    json.dump(meta, open(os.path.join(dst, "meta.json"), "w"), indent=1)
    print("imported", sid, "->", dst, "| confirmed:", meta["confirmed_by_me"]["result"])


if __name__ == "__main__":
    main()
