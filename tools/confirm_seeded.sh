#!/bin/bash
# Confirms a seeded change in the scratch worktree /tmp/wt_confirm (never in /repo):
#   1. patch applies, the baseline configuration builds, the full ctest suite passes with it
#   2. the demonstration fails with the change and passes without it
# usage: confirm_seeded.sh <id> <dir with patch.diff, run.sh, demo...>   -> writes /tmp/confirm_<id>.log
ID=$1; SRC=$2; WT=/tmp/wt_confirm; LOG=/tmp/confirm_$ID.log
exec > $LOG 2>&1
set -x
cd $WT && git checkout -q -- . && git apply $SRC/patch.diff || { echo "CONFIRM_RESULT apply_failed"; exit 1; }
# build everything the suite runs, test executables included: ctest's own per-test ninja calls must find nothing to do,
# several of them re-linking one static library at the same time corrupt it
nice -n 5 ninja -C $WT/_build -j12 all tests > /tmp/confirm_${ID}_ninja.log 2>&1; BUILD=$?
tail -3 /tmp/confirm_${ID}_ninja.log
if [ $BUILD -ne 0 ]; then echo "CONFIRM_RESULT build_failed"; git checkout -q -- .; exit 1; fi
ctest --test-dir $WT/_build -j8 --timeout 900 > /tmp/confirm_${ID}_ctest.log 2>&1; CT=$?
tail -8 /tmp/confirm_${ID}_ctest.log
if [ $CT -ne 0 ]; then
  # the machine is shared with other jobs: tests that failed in the parallel run are repeated one at a time
  ctest --test-dir $WT/_build --rerun-failed --timeout 1800 > /tmp/confirm_${ID}_ctest_rerun.log 2>&1; CT=$?
  echo "RERUN OF FAILED TESTS (serial): exit $CT"; tail -6 /tmp/confirm_${ID}_ctest_rerun.log
fi
( cd $SRC && timeout 1200 bash ./run.sh $WT ) > /tmp/confirm_${ID}_demo_with.log 2>&1; DW=$?
tail -5 /tmp/confirm_${ID}_demo_with.log
( cd $SRC && timeout 1200 bash ./run.sh /repo ) > /tmp/confirm_${ID}_demo_without.log 2>&1; DO=$?
tail -5 /tmp/confirm_${ID}_demo_without.log
git -C $WT checkout -q -- .
echo "CONFIRM_RESULT id=$ID build=$BUILD ctest_exit=$CT demo_with_change_exit=$DW demo_without_change_exit=$DO"
