#!/usr/bin/env python3
"""Generates /verif/mutants/*.patch (own sensitivity corpus, DESIGN.md 5.x 'planned sensitivity mutants') by textual
replacement in /repo, `git diff`, and immediate revert. Nothing is committed in /repo."""
import os, subprocess, sys
REPO = "/repo"; OUT = os.path.join(os.path.dirname(os.path.dirname(os.path.abspath(__file__))), "mutants")
M = []
def mut(name, path, old, new, count=1):
    M.append((name, path, old, new, count))

# ---- C17
mut("C17-fence-wait-if", "kernel/util/thread.hpp", "      while(!_open)\n", "      if(!_open)\n")
mut("C17-fence-open-no-notify", "kernel/util/thread.hpp", "      _cvar.notify_all();\n", "")
mut("C17-fence-close-keeps-open", "kernel/util/thread.hpp", "      _open = _okay = false;\n", "      _okay = false;\n")
mut("C17-layered-no-wait-for-next", "kernel/assembly/domain_assembler.hpp",
    "                if(!this->_thread_fences.at(this->_my_id+1).wait())\n                  return false;\n", "")
mut("C17-thread-layers-one-layer", "kernel/assembly/domain_assembler.hpp",
    "          if(this->_thread_layers.at(i+1) < this->_thread_layers.at(i) + Index(2))\n            this->_thread_layers.at(i+1) = this->_thread_layers.at(i) + Index(2);\n",
    "          if(this->_thread_layers.at(i+1) < this->_thread_layers.at(i) + Index(1))\n            this->_thread_layers.at(i+1) = this->_thread_layers.at(i) + Index(1);\n")
mut("C17-fence-open-after-first-element", "kernel/assembly/domain_assembler.hpp",
    "              elem_fence_open = this->_layer_elements.at(this->_thread_layers.at(_my_id-1) + 1u) - 1u;\n",
    "              elem_fence_open = this->_layer_elements.at(this->_thread_layers.at(_my_id-1));\n")
mut("C17-colored-range-overlap", "kernel/assembly/domain_assembler.hpp",
    "              elem_end = (color_size * Index(this->_my_id  )) / Index(this->_num_workers);\n",
    "              elem_end = Math::min(color_size, (color_size * Index(this->_my_id  )) / Index(this->_num_workers) + Index(1));\n")
mut("C17-colored-master-skips-second-round", "kernel/assembly/domain_assembler.hpp",
    "            for(std::size_t i(0); i < this->_threads.size(); ++i)\n            {\n              this->_thread_fences.at(i+1u).wait();\n              this->_thread_fences.at(i+1u).close();\n            }\n            this->_thread_fences.back().close();\n",
    "            for(std::size_t i(0); i < this->_threads.size(); ++i)\n            {\n              this->_thread_fences.at(i+1u).close();\n            }\n            this->_thread_fences.back().close();\n")
mut("C17-noscatter-range-gap", "kernel/assembly/domain_assembler.hpp",
    "          Index elem_beg = Index(((this->_my_id-1u) * this->_element_indices.size()) / this->_num_workers);\n",
    "          Index elem_beg = Index(((this->_my_id-1u) * this->_element_indices.size() + this->_num_workers - 1u) / this->_num_workers);\n")
# ---- C13
mut("C13-scatter-wrong-mirror", "kernel/global/synch_vec.hpp", "          _mirrors->at(idx).scatter_axpy(*_target, _recv_bufs.at(idx));\n", "          _mirrors->at(0).scatter_axpy(*_target, _recv_bufs.at(idx));\n")
mut("C13-no-send-wait", "kernel/global/synch_vec.hpp", "        // wait for all sends to finish\n        _send_reqs.wait_all();\n", "")
mut("C13-gate-no-invert", "kernel/global/gate.hpp", "        _freqs.component_invert(_freqs);\n", "")
mut("C13-sync1-no-from1to0", "kernel/global/gate.hpp",
    "          from_1_to_0(vector);\n          SynchVectorTicket<LocalVector_, Mirror_> ticket(vector, *_comm, _ranks, _mirrors);\n          ticket.wait();\n",
    "          SynchVectorTicket<LocalVector_, Mirror_> ticket(vector, *_comm, _ranks, _mirrors);\n          ticket.wait();\n")
mut("C13-dot-without-freqs", "kernel/global/gate.hpp", "          return sum(_freqs.triple_dot(x, y));\n", "          return sum(x.dot(y));\n")
# ---- C12
mut("C12-naive-empty-first-patch", "control/domain/parti_domain_control_base.hpp", "              ptr[i] = (i*num_elems) / num_parts;\n", "              ptr[i] = ((i-1u)*num_elems) / num_parts;\n")
# ---- C05
mut("C05-checkpoint-offset", "control/checkpoint_control.hpp", "          _offset_by_identifier[String(_input_array.data() + i, stringsize)] = i + stringsize;\n", "          _offset_by_identifier[String(_input_array.data() + i, stringsize)] = i + stringsize + (stringsize > 40u ? 1u : 0u);\n")
# ---- C11
mut("C11-mapping-count-not-checked", "kernel/geometry/mesh_file_reader.hpp",
    "        // ensure that we have read all index tuples\n        if(_read < _count)\n          throw Xml::GrammarError(iline, sline, \"Invalid terminator; expected index\");\n      }\n\n      virtual std::shared_ptr<MarkupParser> markup(int, const String&, const String&) override\n      {\n        // no children allowed\n        return nullptr;\n      }\n\n      virtual bool content(int iline, const String& sline) override\n      {\n        // make sure that we do not read more points than expected\n        if(_read >= _count)\n          throw Xml::ContentError(iline, sline, \"Invalid content; expected terminator\");\n\n        // try to parse index\n        if(!sline.parse(_indices[_read]))",
    "        // ensure that we have read all index tuples\n        if(_read + 1u < _count)\n          throw Xml::GrammarError(iline, sline, \"Invalid terminator; expected index\");\n      }\n\n      virtual std::shared_ptr<MarkupParser> markup(int, const String&, const String&) override\n      {\n        // no children allowed\n        return nullptr;\n      }\n\n      virtual bool content(int iline, const String& sline) override\n      {\n        // make sure that we do not read more points than expected\n        if(_read >= _count)\n          throw Xml::ContentError(iline, sline, \"Invalid content; expected terminator\");\n\n        // try to parse index\n        if(!sline.parse(_indices[_read]))")

def main():
    os.makedirs(OUT, exist_ok=True)
    if subprocess.run(["git", "-C", REPO, "status", "--porcelain", "--untracked-files=no"], stdout=subprocess.PIPE, text=True).stdout.strip():
        print("refusing: /repo has uncommitted changes"); return 2
    ok = 0
    for name, path, old, new, count in M:
        p = os.path.join(REPO, path)
        s = open(p).read()
        if s.count(old) != count:
            print("SKIP %s: pattern found %d times in %s (expected %d)" % (name, s.count(old), path, count)); continue
        open(p, "w").write(s.replace(old, new))
        d = subprocess.run(["git", "-C", REPO, "diff"], stdout=subprocess.PIPE, text=True).stdout
        subprocess.run(["git", "-C", REPO, "checkout", "--", "."])
        open(os.path.join(OUT, name + ".patch"), "w").write(d)
        ok += 1
    print("wrote %d of %d mutants to %s" % (ok, len(M), OUT))
    return 0
sys.exit(main())
