#!/usr/bin/env python3
"""Sensitivity self-test: applies each seeded change (seeded/<id>/patch.diff) and each own mutant (mutants/*.patch)
to /repo (git apply), runs the quick check of its property, records whether and how it was caught, and undoes the
change straight afterwards (git checkout -- .). Never commits anything in /repo.

usage: selftest_sensitivity.py [ids...]      -> writes build/sensitivity.json and prints a table
"""
import json, os, re, subprocess, sys, time
VERIF = os.path.dirname(os.path.dirname(os.path.abspath(__file__)))
REPO = os.environ.get("VERIF_REPO", "/repo")


def sh(cmd, **kw):
    return subprocess.run(cmd, shell=True, stdout=subprocess.PIPE, stderr=subprocess.STDOUT, text=True, **kw)


def entries():
    out = []
    sd = os.path.join(VERIF, "seeded")
    for d in sorted(os.listdir(sd)) if os.path.isdir(sd) else []:
        p = os.path.join(sd, d, "patch.diff")
        m = os.path.join(sd, d, "meta.json")
        if os.path.exists(p) and os.path.exists(m):
            # a later library fix may have rewritten the lines a change touches: the change carried over by hand is used then
            reb = sorted(f for f in os.listdir(os.path.join(sd, d)) if f.startswith("patch_rebased_on_") and f.endswith(".diff"))
            out.append((d, json.load(open(m))["property"], os.path.join(sd, d, reb[-1]) if reb else p))
    md = os.path.join(VERIF, "mutants")
    for f in sorted(os.listdir(md)) if os.path.isdir(md) else []:
        if f.endswith(".patch"):
            mm = re.match(r"(C\d+)-", f)
            if mm:
                out.append((f[:-6], mm.group(1), os.path.join(md, f)))
    return out


def main():
    want = set(sys.argv[1:])
    res = []
    if REPO == "/repo" and sh("git -C %s status --porcelain --untracked-files=no" % REPO).stdout.strip():
        print("refusing: /repo has uncommitted changes")
        return 2
    for name, pid, patch in entries():
        if want and name not in want and pid not in want:
            continue
        t0 = time.time()
        a = sh("cd %s && patch -p1 --no-backup-if-mismatch < %s" % (REPO, patch))
        if a.returncode != 0:
            res.append({"id": name, "property": pid, "result": "patch does not apply: " + a.stdout[-200:]})
            continue
        try:
            r = sh("cd %s && python3 tools/check.py %s --tier quick" % (VERIF, pid), timeout=3600)
        finally:
            sh("cd %s && patch -p1 -R --no-backup-if-mismatch < %s" % (REPO, patch))
        viol = re.findall(r"violation class=(\S+) harness=(\S+) run=(\d+)", r.stdout)
        entry = {"id": name, "property": pid, "exit": r.returncode, "seconds": round(time.time() - t0, 1),
                 "caught": r.returncode == 1 and "VIOLATION property=%s" % pid in r.stdout,
                 "classes": sorted({v[0] for v in viol}), "harness": sorted({v[1] for v in viol}),
                 "first_run": min([int(v[2]) for v in viol]) if viol else None}
        if r.returncode not in (0, 1):
            entry["output_tail"] = r.stdout[-600:]
        res.append(entry)
        print(json.dumps(entry), flush=True)
    # leave the replays of mutated trees out of the way (a tagged run keeps them under build/ anyway)
    if not os.environ.get("VERIF_BIN_TAG"):
        sh("rm -f %s/replays/*.json" % VERIF)
    os.makedirs(os.path.join(VERIF, "build"), exist_ok=True)
    # results accumulate by id over partial runs (the latest verdict of an id wins); guarded against parallel lanes
    import fcntl
    outp = os.path.join(VERIF, "build", "sensitivity.json")
    with open(outp + ".lock", "w") as lk:
        fcntl.flock(lk, fcntl.LOCK_EX)
        old = []
        try:
            old = json.load(open(outp))
        except Exception:
            pass
        merged = {e["id"]: e for e in old if isinstance(e, dict) and "id" in e}
        for e in res:
            e["checked_at"] = time.strftime("%Y-%m-%dT%H:%M:%SZ", time.gmtime())
            merged[e["id"]] = e
        json.dump([merged[k] for k in sorted(merged)], open(outp, "w"), indent=1)
    missed = [e["id"] for e in res if not e.get("caught")]
    print("caught %d of %d; missed: %s" % (len(res) - len(missed), len(res), missed))
    return 0


if __name__ == "__main__":
    sys.exit(main())
