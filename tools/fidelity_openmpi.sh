#!/bin/sh
# Development-only fidelity cross-check of SimMPI (DESIGN.md 7): the SimMPI self-test program, compiled
# unchanged against the real Open MPI, must pass under mpirun for the same plans it passes in simulation.
set -e
cd "$(dirname "$0")/.."
mkdir -p build/fidelity
mpicxx -std=c++17 -O1 -DREAL_MPI harness/simmpi_selftest.cpp -o build/fidelity/selftest_real
for n in 1 2 3 5 8; do
  mpirun --allow-run-as-root --oversubscribe -n $n build/fidelity/selftest_real 0 30 | tail -1
done
