#!/usr/bin/env python3
"""No-false-alarm self-test: applies each property-preserving change (benign/<Cxx>/<name>.diff, written by independent
sub-agents that were asked for legitimate refactorings/alternative designs that keep the property true) to a scratch copy of
the repository, runs the quick check of its property and expects exit 0 without a VIOLATION line.

usage: VERIF_REPO=/tmp/<scratch worktree> selftest_benign.py [names...]   -> build/benign.json and a table
(never run against /repo itself while other jobs use it; the patch is reverted straight afterwards)
"""
import json, os, re, subprocess, sys, time
VERIF = os.path.dirname(os.path.dirname(os.path.abspath(__file__)))
REPO = os.environ.get("VERIF_REPO", "/repo")


def sh(cmd, **kw):
    return subprocess.run(cmd, shell=True, stdout=subprocess.PIPE, stderr=subprocess.STDOUT, text=True, **kw)


def main():
    want = set(sys.argv[1:])
    res = []
    bd = os.path.join(VERIF, "benign")
    for prop in sorted(os.listdir(bd)):
        d = os.path.join(bd, prop)
        if not os.path.isdir(d):
            continue
        for f in sorted(os.listdir(d)):
            if not f.endswith(".diff"):
                continue
            name = prop + "/" + f[:-5]
            if want and name not in want and prop not in want:
                continue
            patch = os.path.join(d, f)
            t0 = time.time()
            a = sh("cd %s && patch -p1 --no-backup-if-mismatch < %s" % (REPO, patch))
            if a.returncode != 0:
                res.append({"id": name, "result": "patch does not apply: " + a.stdout[-300:]})
                print(json.dumps(res[-1]), flush=True)
                sh("cd %s && git checkout -q -- ." % REPO)
                continue
            try:
                r = sh("cd %s && python3 tools/check.py %s --tier quick" % (VERIF, prop), timeout=3600)
            finally:
                sh("cd %s && patch -p1 -R --no-backup-if-mismatch < %s" % (REPO, patch))
            viol = re.findall(r"violation class=(\S+) harness=(\S+) run=(\d+): ([^\n]*)", r.stdout)
            e = {"id": name, "exit": r.returncode, "seconds": round(time.time() - t0, 1), "clean": r.returncode == 0 and "VIOLATION" not in r.stdout,
                 "violations": [{"class": v[0], "harness": v[1], "run": int(v[2]), "msg": v[3][:300]} for v in viol]}
            if r.returncode not in (0, 1):
                e["output_tail"] = r.stdout[-800:]
            res.append(e)
            print(json.dumps(e), flush=True)
    sh("rm -f %s/replays/*.json" % VERIF)
    os.makedirs(os.path.join(VERIF, "build"), exist_ok=True)
    json.dump(res, open(os.path.join(VERIF, "build", "benign.json"), "w"), indent=1)
    bad = [e["id"] for e in res if not e.get("clean")]
    print("clean %d of %d; alarms/infra: %s" % (len(res) - len(bad), len(res), bad))
    return 0


if __name__ == "__main__":
    sys.exit(main())
