#!/usr/bin/env python3
"""Determinism self-test (DESIGN.md 2.11): every seed is run twice in separate processes at different chunkings and its
decision trace is replayed in a third process; event-log hash, class and step count must agree.
usage: selftest_determinism.py <harness> [--seeds N] [--seed S] [--procs P]"""
import argparse, json, os, subprocess, sys, tempfile, shutil
from concurrent.futures import ThreadPoolExecutor
VERIF = os.path.dirname(os.path.dirname(os.path.abspath(__file__)))
BIN = os.path.join(VERIF, "build", "bin")

def run(cmd):
    p = subprocess.run(cmd, stdout=subprocess.PIPE, stderr=subprocess.DEVNULL)
    out = {}
    for l in p.stdout.decode(errors="replace").splitlines():
        if l.startswith("{"):
            try:
                j = json.loads(l)
            except ValueError:
                continue
            if "result" in j:
                out[j["run"]] = (j["result"]["cls"], j["result"]["hash"], j["result"]["steps"])
    return out

def main():
    ap = argparse.ArgumentParser()
    ap.add_argument("harness"); ap.add_argument("--seeds", type=int, default=200); ap.add_argument("--seed", type=int, default=1); ap.add_argument("--procs", type=int, default=12)
    a = ap.parse_args()
    d = tempfile.mkdtemp(prefix="det-", dir=os.path.join(VERIF, "build"))
    b = os.path.join(BIN, a.harness)
    N = a.seeds
    def chunks(k):
        per = (N + k - 1) // k
        return [(i, min(per, N - i)) for i in range(0, N, per)]
    with ThreadPoolExecutor(a.procs) as ex:
        r1 = list(ex.map(lambda c: run([b, "--seed", str(a.seed), "--from", str(c[0]), "--count", str(c[1]), "--trace-dir", d, "--keep-traces"]), chunks(a.procs)))
        r2 = list(ex.map(lambda c: run([b, "--seed", str(a.seed), "--from", str(c[0]), "--count", str(c[1])]), chunks(max(1, a.procs // 3))))
    m1, m2 = {}, {}
    for x in r1: m1.update(x)
    for x in r2: m2.update(x)
    bad = [r for r in sorted(m1) if r in m2 and m1[r] != m2[r]]
    def rep(r):
        t = os.path.join(d, "%s-%d-%d.json" % (a.harness, a.seed, r))
        if not os.path.exists(t): return r, None
        o = run([b, "--replay", t])
        return r, (list(o.values())[0] if o else None)
    with ThreadPoolExecutor(a.procs) as ex:
        reps = list(ex.map(rep, sorted(m1)))
    badr = [(r, m1[r], v) for r, v in reps if v is not None and v != m1[r]]
    missing = [r for r, v in reps if v is None]
    shutil.rmtree(d, ignore_errors=True)
    print(json.dumps({"harness": a.harness, "seeds": len(m1), "second_run_compared": len([r for r in m1 if r in m2]), "seed_mismatches": bad[:10], "replays": len(reps) - len(missing), "replay_mismatches": badr[:10], "replay_missing": len(missing)}))
    return 1 if bad or badr else 0
sys.exit(main())
