#!/usr/bin/env python3
"""Self-test of the race flavour: clean scenarios (every synchronisation idiom the detector models) must be OK in every
run, their broken twins must end as DATA_RACE in every run - whatever the schedule.
usage: selftest_race.py [runs per scenario, default 60]   -> build/race_selftest.json, exit 0 iff all as expected"""
import json, os, subprocess, sys
VERIF = os.path.dirname(os.path.dirname(os.path.abspath(__file__)))
CLEAN = [0, 1, 2, 3, 4, 5, 6, 7, 8, 9]
RACY = [100, 101, 103, 104, 108, 109]


def run(binary, sc, n):
    env = dict(os.environ, RACE_SELFTEST_SCENARIO=str(sc), SIM_WATCHDOG_S="60")
    res = {}
    i = 0
    while i < n:
        p = subprocess.run([os.path.join(VERIF, "build", "bin" + (("-" + os.environ["VERIF_BIN_TAG"]) if os.environ.get("VERIF_BIN_TAG") else ""), binary), "--seed", "1", "--from", str(i), "--count", str(n - i)], env=env, stdout=subprocess.PIPE, stderr=subprocess.DEVNULL, text=True)
        got = 0
        for l in p.stdout.splitlines():
            try:
                j = json.loads(l)
            except Exception:
                continue
            c = j["result"]["cls"]
            res[c] = res.get(c, 0) + 1
            got += 1
            if c != "OK":
                res.setdefault("first_msg", j["result"]["msg"][:300])
        i += max(got, 1)   # a violation ends the process: continue behind it
    return res


def main():
    n = int(sys.argv[1]) if len(sys.argv) > 1 else 60
    r = subprocess.run([sys.executable, os.path.join(VERIF, "tools", "build.py"), "race_selftest.race", "race_selftest"], stdout=subprocess.PIPE, stderr=subprocess.STDOUT, text=True)
    if r.returncode != 0:
        print(r.stdout[-2000:])
        return 2
    out, ok = [], True
    for sc in CLEAN:
        for b in ("race_selftest.race", "race_selftest"):
            res = run(b, sc, n)
            good = set(k for k in res if k != "first_msg") == {"OK"}
            ok &= good
            out.append({"scenario": sc, "binary": b, "expect": "OK", "results": res, "as_expected": good})
    for sc in RACY:
        res = run("race_selftest.race", sc, n)
        good = set(k for k in res if k != "first_msg") == {"DATA_RACE"}
        ok &= good
        out.append({"scenario": sc, "binary": "race_selftest.race", "expect": "DATA_RACE", "results": res, "as_expected": good})
    os.makedirs(os.path.join(VERIF, "build"), exist_ok=True)
    json.dump(out, open(os.path.join(VERIF, "build", "race_selftest.json"), "w"), indent=1)
    for e in out:
        print(json.dumps(e))
    print("race self-test:", "all as expected" if ok else "MISMATCH")
    return 0 if ok else 1


if __name__ == "__main__":
    sys.exit(main())
