#!/usr/bin/env python3
"""Driver of all checks: build from /repo's working tree, run seeded simulated runs on worker processes,
gate (same-seed-twice, fresh-process trace replay), minimise, match against KNOWN_FINDINGS.txt, write evidence.

  python3 tools/check.py <Cxx> --tier quick|thorough
  python3 tools/check.py <Cxx> --replay <file>

exit 0: property held on everything explored (KNOWN-FINDING lines may be printed)
exit 1: VIOLATION property=<id> replay=<path>
exit 2: infrastructure problem / failed determinism gate (never a verdict about the property)
"""
import argparse, collections, hashlib, json, os, queue, re, shutil, subprocess, sys, threading, time

VERIF = os.path.dirname(os.path.dirname(os.path.abspath(__file__)))
sys.path.insert(0, os.path.join(VERIF, "tools"))
import build as B  # noqa: E402

_TAG = ("-" + os.environ["VERIF_BIN_TAG"]) if os.environ.get("VERIF_BIN_TAG") else ""
BIN = os.path.join(VERIF, "build", "bin" + _TAG)
SCRATCH = os.path.join(VERIF, "build", "scratch" + _TAG)
# a tagged run (self-tests on scratch trees) keeps its replay and evidence files out of the committed directories
REPLAYS = os.path.join(VERIF, "build", "replays" + _TAG) if _TAG else os.path.join(VERIF, "replays")
EVID = os.path.join(VERIF, "build", "evidence" + _TAG) if _TAG else os.path.join(VERIF, "evidence")

# per property: harness binaries with (share of the run-time budget, knobs that may be shrunk towards their minimum)
PROPS = {
    "C17": {
        "harnesses": {"c17_fence": 0.13, "c17_asm": 0.3, "c17_asm.race": 0.42, "c17_iso": 0.05, "c17_iso.race": 0.1},
        "budget_s": {"quick": 50, "thorough": 900},
        "min_runs": {"quick": 400, "thorough": 5000},
    },
    "C12": {
        "harnesses": {"c12_domain": 1.0},
        "budget_s": {"quick": 45, "thorough": 900},
        "min_runs": {"quick": 60, "thorough": 1000},
    },
    "C13": {
        "harnesses": {"c13_scalar": 0.22, "c13_q2": 0.13, "c13_dg": 0.07, "c13_blocked": 0.11, "c13_stokes": 0.05, "c13_stokes_crrt": 0.06, "c13_stokes_mg": 0.07, "c13_app": 0.08, "c13_app_neumann": 0.08, "c13_tm": 0.09, "c13_tm.race": 0.04},
        "budget_s": {"quick": 60, "thorough": 1200},
        "min_runs": {"quick": 40, "thorough": 1000},
    },
    "C05": {
        "harnesses": {"c05_streams": 0.35, "c05_checkpoint": 0.4, "c05_streams.guard": 0.13, "c05_meta": 0.12},
        "budget_s": {"quick": 50, "thorough": 900},
        "min_runs": {"quick": 200, "thorough": 5000},
    },
    "C11": {
        "harnesses": {"c11_mesh": 0.5, "c11_pmap": 0.12, "c11_mesh.guard": 0.2, "c11_pmap.guard": 0.08, "c11_dist": 0.1},
        "budget_s": {"quick": 50, "thorough": 900},
        "min_runs": {"quick": 200, "thorough": 5000},
    },
}
WORKERS = int(os.environ.get("VERIF_WORKERS", "12"))
INFRA_CLASSES = {"INFRA", "MODEL"}
UB_CLASSES = {"SANITIZER", "HEAP_GUARD", "SIGSEGV", "HEAP_CORRUPTION"}


def log(*a):
    print("[check]", *a, file=sys.stderr, flush=True)


# ----------------------------------------------------------------------------------------------
def classify_from_stderr(cls, msg, errtail):
    """ABORT covers assertion failures, std::terminate and sanitizer reports; tell them apart by stderr."""
    if cls != "ABORT":
        return cls, msg
    if "AddressSanitizer" in errtail:
        m = re.search(r"AddressSanitizer: ([\w-]+)", errtail)
        return "SANITIZER", "AddressSanitizer: " + (m.group(1) if m else "report")
    if "runtime error:" in errtail:
        m = re.search(r"runtime error: (.*)", errtail)
        return "SANITIZER", "UBSan: " + (m.group(1)[:200] if m else "report")
    # glibc's own heap consistency checks (flavours without a sanitizer runtime): the heap was corrupted earlier
    mm = re.search(r"(double free or corruption[^\n]*|malloc\(\): [^\n]*|free\(\): invalid[^\n]*|corrupted (?:size|double-linked list)[^\n]*|munmap_chunk\(\): invalid pointer|realloc\(\): invalid[^\n]*|malloc_consolidate\(\): [^\n]*)", errtail)
    if mm:
        return "HEAP_CORRUPTION", "glibc heap check: " + mm.group(1)[:160]
    if "FATAL ERROR" in errtail:
        i = errtail.rfind(">>> FATAL ERROR")
        seg = errtail[i:i + 600]
        lines = [l.strip() for l in seg.splitlines() if l.strip()]
        keep = [l for l in lines[:6] if not l.startswith("Call-Stack")]
        return "ASSERT", " | ".join(keep)
    return cls, msg


def run_worker(harness, seed, frm, count, trace_dir, tag, keep=False, timeout=900, cpu=None):
    """runs one worker process; returns (results, violation or None, infra_error or None)"""
    errp = os.path.join(SCRATCH, "stderr-%s-%s.txt" % (harness, tag))
    cmd = [os.path.join(BIN, harness), "--seed", str(seed), "--from", str(frm), "--count", str(count), "--trace-dir", trace_dir]
    if keep:
        cmd.append("--keep-traces")
    if cpu is not None:
        cmd += ["--cpu", str(cpu)]
    with open(errp, "wb") as ef:
        try:
            p = subprocess.run(cmd, stdout=subprocess.PIPE, stderr=ef, timeout=timeout)
        except subprocess.TimeoutExpired:
            return [], None, "worker timeout: " + " ".join(cmd)
    results, viol = [], None
    for line in p.stdout.decode(errors="replace").splitlines():
        if not line.startswith("{"):
            continue
        try:
            j = json.loads(line)
        except ValueError:
            continue
        if "infra" in j:
            return results, None, j["infra"]
        if j["result"]["cls"] == "OK":
            results.append(j)
        else:
            viol = j
    errtail = ""
    try:
        with open(errp, "rb") as f:
            f.seek(0, 2)
            n = f.tell()
            f.seek(max(0, n - 20000))
            errtail = f.read().decode(errors="replace")
    except OSError:
        pass
    if viol is not None:
        c, m = classify_from_stderr(viol["result"]["cls"], viol["result"]["msg"], errtail)
        viol["result"]["cls_raw"] = viol["result"]["cls"]
        viol["result"]["cls"], viol["result"]["msg"] = c, m
        viol["harness"] = harness
        viol["trace"] = os.path.join(trace_dir, "%s-%d-%d.json" % (harness, seed, viol["run"]))
        viol["stderr_tail"] = errtail[-3000:]
        return results, viol, None
    if p.returncode != 0:
        return results, None, "worker %s exited with %d without a result line; stderr tail: %s" % (harness, p.returncode, errtail[-1500:])
    return results, None, None


def replay_once(harness, path, out, budget_mul=None, timeout=600):
    env = dict(os.environ)
    if budget_mul:
        env["SIM_BUDGET_MUL"] = str(budget_mul)
    errp = out + ".stderr"
    with open(errp, "wb") as ef:
        try:
            p = subprocess.run([os.path.join(BIN, harness), "--replay", path, "--trace-out", out, "--keep-traces"],
                               stdout=subprocess.PIPE, stderr=ef, env=env, timeout=timeout)
        except subprocess.TimeoutExpired:
            return {"cls": "INFRA", "msg": "replay timeout", "hash": ""}
    res = None
    for line in p.stdout.decode(errors="replace").splitlines():
        if line.startswith("{"):
            try:
                j = json.loads(line)
            except ValueError:
                continue
            if "infra" in j:
                return {"cls": "INFRA", "msg": j["infra"], "hash": ""}
            res = j["result"]
    if res is None:
        return {"cls": "INFRA", "msg": "no result line from replay (exit %d)" % p.returncode, "hash": ""}
    try:
        errtail = open(errp, "rb").read()[-20000:].decode(errors="replace")
    except OSError:
        errtail = ""
    res["cls_raw"] = res["cls"]
    res["cls"], res["msg"] = classify_from_stderr(res["cls"], res["msg"], errtail)
    try:
        os.remove(errp)
    except OSError:
        pass
    return res


# ----------------------------------------------------------------------------------------------
class Minimiser:
    """Greedy + ddmin over the decision list (values are interpreted modulo the enabled options, so every
    list is a valid execution), then monotone configuration knobs. The violation class is kept fixed."""

    def __init__(self, harness, trace, cls, budget_s=60, max_cand=300):
        self.h, self.cls = harness, cls
        self.t = json.load(open(trace))
        self.deadline = time.time() + budget_s
        self.max_cand = max_cand
        self.n_cand = 0
        self.tmp = os.path.join(SCRATCH, "min-%d" % os.getpid())
        os.makedirs(self.tmp, exist_ok=True)
        self.best_out = None

    def exhausted(self):
        return self.n_cand >= self.max_cand or time.time() > self.deadline

    def ok(self, dec, cfg):
        if self.exhausted():
            return False
        self.n_cand += 1
        cand = dict(self.t)
        cand["decisions"], cand["cfg"] = dec, cfg
        cp = os.path.join(self.tmp, "cand.json")
        op = os.path.join(self.tmp, "out-%d.json" % self.n_cand)
        json.dump(cand, open(cp, "w"))
        r = replay_once(self.h, cp, op, timeout=120)
        if (r["cls"] == self.cls or (self.cls in UB_CLASSES and r["cls"] in UB_CLASSES)) and os.path.exists(op):
            if self.best_out and os.path.exists(self.best_out):
                os.remove(self.best_out)
            self.best_out = op
            return True
        if os.path.exists(op):
            os.remove(op)
        return False

    def run(self):
        dec = list(self.t.get("decisions", []))
        cfg = dict(self.t.get("cfg", {}))
        orig_len, orig_nz = len(dec), sum(1 for v in dec if v)
        if not self.ok(dec, cfg):
            return None, {"note": "unminimised trace did not reproduce in the minimiser"}
        # (a) truncate the tail (zeros implied): binary search on the prefix length
        lo, hi = 0, len(dec)
        while lo < hi:
            mid = (lo + hi) // 2
            if self.ok(dec[:mid], cfg):
                hi = mid
            else:
                lo = mid + 1
        if hi < len(dec) and self.ok(dec[:hi], cfg):
            dec = dec[:hi]
        # (b) zero chunks of halving size
        chunk = max(1, len(dec) // 2)
        while chunk >= 1 and len(dec) > 0 and not self.exhausted():
            i = 0
            while i < len(dec) and not self.exhausted():
                if any(dec[i:i + chunk]):
                    cand = dec[:i] + [0] * len(dec[i:i + chunk]) + dec[i + chunk:]
                    if self.ok(cand, cfg):
                        dec = cand
                i += chunk
            if chunk == 1:
                break
            chunk //= 2
        # (c) shrink non-zero values towards 1
        for i, v in enumerate(dec):
            if self.exhausted():
                break
            if v > 1:
                cand = list(dec)
                cand[i] = 1
                if self.ok(cand, cfg):
                    dec = cand
        # (d) configuration knobs towards smaller values (same decision list)
        for k in sorted(cfg):
            if self.exhausted():
                break
            if k.startswith("f.") or cfg[k] <= 0:
                continue
            for nv in (0, cfg[k] // 2, cfg[k] - 1):
                if nv < cfg[k]:
                    c2 = dict(cfg)
                    c2[k] = nv
                    if self.ok(dec, c2):
                        cfg = c2
                        break
        while dec and dec[-1] == 0:
            dec.pop()
        info = {"candidates": self.n_cand, "decisions_before": orig_len, "nonzero_before": orig_nz,
                "decisions_after": len(dec), "nonzero_after": sum(1 for v in dec if v)}
        return self.best_out, info


# ----------------------------------------------------------------------------------------------
def load_known():
    p = os.path.join(VERIF, "KNOWN_FINDINGS.txt")
    out = []
    if not os.path.exists(p):
        return out
    for line in open(p):
        line = line.strip()
        if not line.startswith("finding:"):
            continue
        # finding: property=C17 harness=<h> class=<cls> match=<regex over "msg || cfg-json"> [replay=<trace file>] :: text
        # with replay=: the finding is pinned to that decision trace, which every run of the check replays (the seed sweep
        # does not meet it: the trace sets a cfg_fixed knob that exploration never varies)
        m = re.match(r"finding:\s+property=(\S+)\s+harness=(\S+)\s+class=(\S+)\s+match=(.*?)(?:\s+replay=(\S+))?\s+::\s+(.*)", line)
        if m:
            out.append({"property": m.group(1), "harness": m.group(2), "cls": m.group(3), "re": m.group(4), "replay": m.group(5), "text": m.group(6)})
    return out


def match_known(known, pid, harness, res):
    hay = res.get("msg", "") + " || " + json.dumps(res.get("cfg", {}), sort_keys=True)
    for k in known:
        if k["property"] == pid and k["harness"] == harness and k["cls"] == res["cls"] and re.search(k["re"], hay):
            return k
    return None


# ----------------------------------------------------------------------------------------------
def main():
    ap = argparse.ArgumentParser()
    ap.add_argument("pid")
    ap.add_argument("--tier", default=os.environ.get("VERIF_TIER", "quick"))
    ap.add_argument("--replay")
    ap.add_argument("--no-build", action="store_true")
    ap.add_argument("--budget", type=float)
    ap.add_argument("--harness")
    a = ap.parse_args()
    pid = a.pid
    if pid not in PROPS:
        print("unknown property", pid)
        return 2
    P = PROPS[pid]
    tier = a.tier if a.tier in ("quick", "thorough") else "quick"
    seed = int(os.environ.get("VERIF_SEED", "1" if tier == "quick" else "2"))
    t_start = time.time()
    os.environ["VERIF_TIER"] = tier
    os.makedirs(SCRATCH, exist_ok=True)
    os.makedirs(REPLAYS, exist_ok=True)
    os.makedirs(EVID, exist_ok=True)

    harnesses = {h: w for h, w in P["harnesses"].items() if os.path.exists(os.path.join(VERIF, "harness", h.split(".")[0] + ".cpp"))}
    if a.harness:
        harnesses = {a.harness: 1.0}
    if not a.no_build:
        try:
            B.build(list(harnesses), ("san",))
        except RuntimeError as e:
            print("BUILD FAILED (infrastructure, no verdict):\n" + str(e)[-6000:], file=sys.stderr)
            return 2

    # ---------------- replay mode
    if a.replay:
        t = json.load(open(a.replay))
        h = t.get("harness")
        out = os.path.join(SCRATCH, "replay-out-%d.json" % os.getpid())
        r = replay_once(h, a.replay, out)
        print(json.dumps({"harness": h, "class": r["cls"], "msg": r["msg"], "hash": r.get("hash"), "expected_class": t.get("class"), "expected_hash": t.get("hash")}))
        if r["cls"] == "OK":
            return 0
        if r["cls"] in INFRA_CLASSES:
            return 2
        k = match_known(load_known(), pid, h, r)
        if k is not None:
            print("KNOWN-FINDING: property=%s %s" % (pid, k["text"]))
            return 0
        print("VIOLATION property=%s replay=%s" % (pid, a.replay))
        return 1

    budget = a.budget if a.budget else P["budget_s"][tier]
    min_runs = P["min_runs"][tier]
    known = load_known()
    trace_dir = os.path.join(SCRATCH, "traces-%s-%d" % (pid, os.getpid()))
    shutil.rmtree(trace_dir, ignore_errors=True)
    os.makedirs(trace_dir)

    # ---------------- determinism sample: the same seeds in two fresh processes each
    det = {"seeds": 0, "mismatches": 0}
    for h in harnesses:
        r1, v1, e1 = run_worker(h, seed, 0, 8, trace_dir, "det1")
        r2, v2, e2 = run_worker(h, seed, 0, 8, trace_dir, "det2")
        if e1 or e2:
            print("INFRA: " + str(e1 or e2), file=sys.stderr)
            return 2
        h1 = [(x["run"], x["result"]["hash"]) for x in r1] + ([(v1["run"], v1["result"]["hash"])] if v1 else [])
        h2 = [(x["run"], x["result"]["hash"]) for x in r2] + ([(v2["run"], v2["result"]["hash"])] if v2 else [])
        det["seeds"] += len(h1)
        if h1 != h2:
            det["mismatches"] += 1
            print("DETERMINISM GATE FAILED for %s: %s vs %s" % (h, h1, h2), file=sys.stderr)
            return 2

    # ---------------- main exploration
    lock = threading.Lock()
    state = {h: {"next": 0, "runs": 0, "time": 0.0, "chunk": 8} for h in harnesses}
    results = Agg()
    violations, infra = [], []
    t_end = time.time() + budget
    stop = threading.Event()

    def pick():
        with lock:
            if stop.is_set():
                return None
            now = time.time()
            total_runs = sum(s["runs"] for s in state.values())
            if now > t_end and total_runs >= min_runs:
                return None
            if now > t_end + 4 * budget:
                return None
            # harness whose consumed share is furthest below its weight
            tot_t = sum(s["time"] for s in state.values()) + 1e-9
            wsum = sum(harnesses.values())
            best = min(harnesses, key=lambda h: (state[h]["time"] / tot_t) / (harnesses[h] / wsum) if tot_t > 1e-6 else state[h]["next"])
            s = state[best]
            frm, cnt = s["next"], s["chunk"]
            s["next"] += cnt
            return best, frm, cnt

    def worker(wid):
        while True:
            job = pick()
            if job is None:
                return
            h, frm, cnt = job
            t0 = time.time()
            # the guard flavour has no sanitizer runtime: a heap it corrupted can also deadlock the process inside malloc,
            # so its workers get a short leash and a timeout is treated like a silent death
            res, viol, err = run_worker(h, seed, frm, cnt, trace_dir, "w%d" % wid, cpu=wid % (os.cpu_count() or 1), timeout=240 if h.endswith(".guard") else 900)
            if err and h.endswith(".guard") and ("without a result line" in err or "worker timeout" in err):
                # the guard flavour has no sanitizer: a corrupted heap can take the process down before it reports. The
                # sanitizer flavour of the same harness runs the same seeds identically - let it name the error.
                h2 = h[:-len(".guard")]
                res2, viol2, err2 = run_worker(h2, seed, frm, cnt, trace_dir, "w%dr" % wid, cpu=wid % (os.cpu_count() or 1))
                if viol2 is not None:
                    log("%s died or hung without a report in runs %d..%d; the sanitizer flavour reports %s at run %d" % (h, frm, frm + cnt - 1, viol2["result"]["cls"], viol2["run"]))
                    h, res, viol, err = h2, res2, viol2, None
            dt = time.time() - t0
            with lock:
                s = state[h]
                s["runs"] += len(res) + (1 if viol else 0)
                s["time"] += dt
                per = dt / max(1, len(res) + (1 if viol else 0))
                # aim at ~3 s per worker process
                s["chunk"] = int(max(2, min(2000, 2.0 / max(per, 1e-4))))
                results.add(h, res)
                if err:
                    infra.append(err)
                    stop.set()
                if viol:
                    violations.append(viol)
                    # re-queue the rest of the chunk
                    rest_from = viol["run"] + 1
                    rest = frm + cnt - rest_from
                    if rest > 0:
                        pass  # skipped runs are simply not counted; later chunks continue the seed range
                    distinct = {(v["harness"], v["result"]["cls"]) for v in violations}
                    # a violation is a stop condition: the quick tier reports the first one, the thorough tier up to three classes
                    if tier == "quick" or len(violations) >= 6 or len(distinct) >= 3:
                        stop.set()

    threads = [threading.Thread(target=worker, args=(i,)) for i in range(WORKERS)]
    for t in threads:
        t.start()
    for t in threads:
        t.join()
    if infra:
        print("INFRA: " + infra[0], file=sys.stderr)
        write_evidence(pid, tier, seed, results, [], [], det, time.time() - t_start, harnesses, infra=infra[0])
        return 2

    # ---------------- gates, minimisation, known findings
    reported, known_printed = [], []
    seen_sig = set()
    infra_gate = None
    violations.sort(key=lambda v: (v["harness"], v["run"]))
    for v in violations:
        h, res = v["harness"], v["result"]
        sig = (h, res["cls"], re.sub(r"\d+", "#", res["msg"])[:120])
        k = match_known(known, pid, h, res)
        if k:
            if k["text"] not in known_printed:
                known_printed.append(k["text"])
            continue
        if sig in seen_sig:
            continue
        seen_sig.add(sig)
        if res["cls"] in INFRA_CLASSES:
            infra_gate = "harness reported %s: %s" % (res["cls"], res["msg"])
            break
        # budget hits are re-run with a 10x budget before being believed
        trace = v["trace"]
        if not os.path.exists(trace):
            infra_gate = "violation without trace file: %s" % json.dumps(res)[:500]
            break
        if res["cls"] == "BUDGET":
            r10 = replay_once(h, trace, os.path.join(SCRATCH, "b10.json"), budget_mul=10)
            if r10["cls"] == "OK":
                log("budget hit at run %d vanished with a 10x budget: not a violation" % v["run"])
                continue
        # gate 1: same seed again (fresh process) -> same class and event-log hash.
        # One exception: a memory error of the code under test (sanitizer report, damaged guard zone, fatal signal) is
        # undefined behaviour - what the program does up to the report may depend on heap addresses and stale memory, so
        # the event log of the repetition may differ although the simulator made the same decisions. Such a violation is
        # believed when every repetition and the replay end in the same class; the report says that the hash varied.
        ub_class = res["cls"] in UB_CLASSES
        os.makedirs(trace_dir + "-g1", exist_ok=True)
        r1, v1, e1 = run_worker(h, seed, v["run"], 1, trace_dir + "-g1", "gate1")
        if not e1 and v1 is not None and ub_class and v1["result"]["cls"] in UB_CLASSES and (v1["result"]["hash"] != res["hash"] or v1["result"]["cls"] != res["cls"]):
            log("memory error of the code under test at %s run %d: %s/%s, repetition %s/%s (undefined behaviour: how it surfaces may vary, a memory error it is every time)" % (h, v["run"], res["cls"], res["hash"], v1["result"]["cls"], v1["result"]["hash"]))
            v["ub_hash_varies"] = True
        elif e1 or v1 is None or v1["result"]["cls"] != res["cls"] or v1["result"]["hash"] != res["hash"]:
            infra_gate = "gate 1 (same seed twice) failed for %s run %d: first %s/%s, second %s" % (
                h, v["run"], res["cls"], res["hash"], (v1["result"]["cls"] + "/" + v1["result"]["hash"]) if v1 else e1 or "OK")
            break
        # gate 2: decision-trace replay in a fresh process, PRNG unused
        out2 = os.path.join(SCRATCH, "gate2-%d.json" % os.getpid())
        r2 = replay_once(h, trace, out2)
        if ub_class and r2["cls"] in UB_CLASSES:
            pass
        elif r2["cls"] != res["cls"] or r2.get("hash") != res["hash"]:
            infra_gate = "gate 2 (trace replay) failed for %s run %d: seed run %s/%s, replay %s/%s" % (
                h, v["run"], res["cls"], res["hash"], r2["cls"], r2.get("hash"))
            break
        # minimise, then gate 2 again on the minimised file
        base = "%s-%s-%d-%d" % (pid, h, seed, v["run"])
        final = os.path.join(REPLAYS, base + ".json")
        shutil.copy(trace, os.path.join(REPLAYS, base + ".orig.json"))
        mn = Minimiser(h, trace, res["cls"], budget_s=45 if tier == "quick" else 180, max_cand=200 if not reported else 0)
        best, info = mn.run() if not reported else (None, {"note": "not minimised (only the first violation of a batch is)"})
        if best:
            shutil.copy(best, final)
            r3 = replay_once(h, final, os.path.join(SCRATCH, "gate3-%d.json" % os.getpid()))
            tj = json.load(open(final))
            if ub_class and r3["cls"] in UB_CLASSES:
                pass
            elif r3["cls"] != res["cls"] or r3.get("hash") != tj.get("hash"):
                infra_gate = "gate 3 (replay of the minimised trace) failed for %s run %d" % (h, v["run"])
                break
        else:
            shutil.copy(trace, final)
        shutil.rmtree(mn.tmp, ignore_errors=True)
        tj = json.load(open(final))
        tj["minimisation"] = info
        tj["class"] = res["cls"]
        tj["msg_classified"] = res["msg"]
        tj["property"] = pid
        if v.get("ub_hash_varies"):
            tj["note"] = "memory error of the code under test (undefined behaviour): how it surfaces - sanitizer report, glibc heap check, guard-zone damage, fatal signal, and with which event-log hash - varies between repetitions of this run; every repetition and the replay end in a memory error"
        json.dump(tj, open(final, "w"), indent=1)
        reported.append({"harness": h, "run": v["run"], "cls": res["cls"], "msg": res["msg"], "replay": final, "minimisation": info})
    shutil.rmtree(trace_dir, ignore_errors=True)
    shutil.rmtree(trace_dir + "-g1", ignore_errors=True)

    # ---------------- pinned known findings: replay their trace on the current tree
    for k in known:
        if k["property"] != pid or not k.get("replay") or k["harness"] not in harnesses or infra_gate:
            continue
        tr = os.path.join(VERIF, k["replay"])
        rk = replay_once(k["harness"], tr, os.path.join(SCRATCH, "known-%d.json" % os.getpid()))
        if rk["cls"] in INFRA_CLASSES:
            infra_gate = "replay of the pinned known finding %s failed: %s" % (k["replay"], rk.get("msg"))
        elif rk["cls"] == "OK":
            log("known finding no longer reproduces on this tree: %s" % k["replay"])
        elif match_known([k], pid, k["harness"], rk):
            if k["text"] not in known_printed:
                known_printed.append(k["text"])
        else:
            # the pinned scenario fails in another way than the listed finding: an ordinary violation
            final = os.path.join(REPLAYS, "%s-%s-pinned-%s" % (pid, k["harness"], os.path.basename(k["replay"])))
            shutil.copy(tr, final)
            reported.append({"harness": k["harness"], "run": -1, "cls": rk["cls"], "msg": rk.get("msg", ""), "replay": final, "minimisation": {}})

    wall = time.time() - t_start
    if infra_gate:
        print("INFRA/GATE: " + infra_gate, file=sys.stderr)
        write_evidence(pid, tier, seed, results, reported, known_printed, det, wall, harnesses, infra=infra_gate)
        return 2
    write_evidence(pid, tier, seed, results, reported, known_printed, det, wall, harnesses)
    for kt in known_printed:
        print("KNOWN-FINDING: property=%s %s" % (pid, kt))
    for r in reported:
        print("violation class=%s harness=%s run=%d: %s" % (r["cls"], r["harness"], r["run"], r["msg"][:300]))
        print("VIOLATION property=%s replay=%s" % (pid, r["replay"]))
    tot = len(results)
    log("%s %s: %d clean runs, %d violation(s), %d known finding(s), %.1fs" % (pid, tier, tot, len(reported), len(known_printed), wall))
    return 1 if reported else 0


class Agg:
    """Folds the result lines of the runs as they arrive (a thorough C05 batch is 8 million runs: keeping them all costs tens
    of GB). Distinct hashes are kept as 64-bit integers and capped."""
    CAP = 4000000

    def __init__(self):
        self.n = collections.Counter()
        self.faults, self.probes, self.faults_clean = collections.Counter(), collections.Counter(), collections.Counter()
        self.steps = self.sim_ns = 0
        self.distinct, self.ilv = set(), set()
        self.capped = False
        self.cfg_hist = collections.defaultdict(collections.Counter)
        self.clean_runs = self.faulted_runs = 0
        self.samples = collections.defaultdict(list)
        self.extra_sum = collections.Counter()

    def __len__(self):
        return sum(self.n.values())

    def values(self):           # compatibility with "sum(len(v) for v in results.values())"
        return [range(c) for c in self.n.values()]

    def add(self, h, rs):
        for j in rs:
            r = j["result"]
            self.n[h] += 1
            self.steps += r["steps"]
            self.sim_ns += r["sim_ns"]
            is_clean = r["cfg"].get("clean", 1) == 0
            self.clean_runs += 1 if is_clean else 0
            self.faulted_runs += 0 if is_clean else 1
            for k, v in r["faults"].items():
                (self.faults_clean if is_clean else self.faults)[k] += v
            for k, v in r["probes"].items():
                self.probes[k] += v
            if len(self.ilv) < self.CAP:
                self.ilv.add(hash((h, r["sched_hash"])))
            else:
                self.capped = True
            if r["nonzero"] >= 1:
                if len(self.distinct) < self.CAP:
                    self.distinct.add(hash((h, r["hash"])))
                else:
                    self.capped = True
            for k, v in r["cfg"].items():
                if len(k) <= 14 and not re.match(r"t\d+o\d+", k):
                    self.cfg_hist[k][v] += 1
            ex = j.get("extra")
            if isinstance(ex, dict):
                for k, v in ex.items():
                    if isinstance(v, (int, float)):
                        self.extra_sum[k] += v
            if len(self.samples[h]) < 2:
                self.samples[h].append({"harness": h, "run": j["run"], "seed": j["seed"], "cfg": r["cfg"], "steps": r["steps"],
                                        "decisions": r["decisions"], "nonzero_decisions": r["nonzero"], "faults_fired": r["faults"],
                                        "probes": r["probes"], "event_log_hash": r["hash"], "verdict": "OK", "extra": j.get("extra")})


def write_evidence(pid, tier, seed, results, reported, known_printed, det, wall, harnesses, infra=None):
    tot = len(results)
    faults, probes, faults_clean = results.faults, results.probes, results.faults_clean
    steps, sim_ns = results.steps, results.sim_ns
    distinct, ilv = results.distinct, results.ilv
    cfg_hist = results.cfg_hist
    clean_runs, faulted_runs = results.clean_runs, results.faulted_runs
    per_h = dict(results.n)
    extra_sum = results.extra_sum
    samples = []
    for h in results.samples:
        samples.extend(results.samples[h])
    if not samples:
        samples.append({"note": "no run completed"})
    notes = {}
    np = os.path.join(VERIF, "tools", "evidence_notes.json")
    if os.path.exists(np):
        notes = json.load(open(np)).get(pid, {})
    ev = {
        "property_id": pid, "tier": tier, "seed": seed, "level": "exploration", "wall_s": round(wall, 2),
        "violations": len(reported),
        "coverage": {
            "evaluations": max(tot, 0) + len(reported),
            "distinct_nontrivial": len(distinct),
            "rule": "one evaluation = one simulated run (seed, run index) -> swarm configuration + schedule + fault sequence, all drawn from one PRNG; "
                    "distinct = distinct event-log hash (covers configuration, every decision and every logged event); non-trivial = at least one non-default "
                    "decision (preemption, fault, delay, pick) was taken in the run",
            "samples": samples[:6],
            "runs_per_harness": per_h,
            "runs_per_hour": int(tot / wall * 3600) if wall > 0 else 0,
            "simulated_seconds_total": round(sim_ns / 1e9, 6),
            "scheduling_steps_total": steps,
            "distinct_interleavings": len(ilv),
            "distinct_interleavings_measure": "distinct hashes of the sequence of tasks chosen at scheduling decisions with >1 enabled task",
            "distinct_counts_capped": bool(results.capped),
            "fault_fired_in_faulted_runs": dict(faults), "fault_fired_in_clean_runs": dict(faults_clean),
            "clean_runs": clean_runs, "faulted_runs": faulted_runs,
            "probes": dict(probes),
            "oracle_counters": dict(extra_sum),
            "config_histogram": {k: {str(a): b for a, b in sorted(v.items())[:24]} for k, v in sorted(cfg_hist.items())[:60]},
            "determinism_sample": det,
            "reported_violations": reported,
            "known_findings_printed": known_printed,
        },
        "assumptions": notes.get("assumptions", []),
    }
    for k in ("real_vs_stub", "fault_kinds_not_modelled", "tolerances"):
        if k in notes:
            ev["coverage"][k] = notes[k]
    if infra:
        ev["coverage"]["infrastructure_error"] = infra
    if ev["coverage"]["distinct_nontrivial"] < 2:
        ev["coverage"]["distinct_nontrivial"] = len(distinct)
    json.dump(ev, open(os.path.join(EVID, pid + ".json"), "w"), indent=1)


def _scratch_cleanup():
    # c05_meta and c11_dist keep their named files in a private tmpfs directory per worker process; a worker that ends
    # at a violation (or is stopped at the end of the time box) exits without removing it
    import glob
    tmp = os.environ.get("TMPDIR", "/tmp")
    for d in glob.glob("/dev/shm/feat3sim_c05_*") + glob.glob(os.path.join(tmp, "feat3sim_c05_*")) + glob.glob("/dev/shm/feat3sim_c11d_*") + glob.glob(os.path.join(tmp, "feat3sim_c11d_*")):
        pid = d.rsplit("_", 1)[-1]
        if pid.isdigit() and os.path.exists("/proc/" + pid):
            continue   # a worker of another check that is still running
        shutil.rmtree(d, ignore_errors=True)


if __name__ == "__main__":
    rc = 2
    try:
        rc = main()
    finally:
        _scratch_cleanup()
    sys.exit(rc)
